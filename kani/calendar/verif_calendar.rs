//! C15: contracts and harnesses for compact-calendar (CompactMonth -> CompactYear -> CompactCalendar).
//! Child module of the crate root (overlaid), so the private fields are visible.
//!
//! Abstract view: a month is a set of days 1..=31 (`has_m`), a year a set of (month, day) (`has_y`), a
//! calendar a set of dates (`has_c`).  Every contract states the operation's effect on the whole view.
//!
//! Two forms of contract proof are used.  `proof_for_contract(f)`: Kani checks f's overlaid
//! requires/ensures/modifies attributes itself.  *Assert form* (`kani::proof` + a `vpost!` of the very
//! predicate the `ensures` attribute calls, under the `requires` predicate as an assumption): used where
//! Kani's contract instrumentation (CBMC dynamic frame checking) made the same obligation 60-200x more
//! expensive (measured: CompactYear::first 10 s in assert form, 624 s / 27 GB through proof_for_contract).
//! The frame of a `&mut self` method needs no separate obligation here: the crate has no unsafe code and
//! no statics, so safe Rust lets the method write to `*self` only, and the harness states the whole
//! new value of `*self`.  Callers use either kind through `stub_verified`, i.e. they see only the contract.
use super::*;
use crate::verif_nd as nd;
use crate::{vcover, vpost};

// ---- CompactMonth: view and contract predicates --------------------------------------------------

pub(crate) fn wf_month(m: CompactMonth) -> bool {
    m.0 >> 31 == 0
}

pub(crate) fn bit(day: u32) -> u32 {
    1u32 << (day - 1)
}

/// membership of `day` (1..=31) in the month's set
pub(crate) fn has_m(m: CompactMonth, day: u32) -> bool {
    m.0 & bit(day) != 0
}

/// mask of the days strictly below `day` (1..=32)
fn days_below(day: u32) -> u32 {
    if day >= 32 { u32::MAX >> 1 } else { bit(day) - 1 }
}

/// mask of the days strictly above `day` (0..=31)
fn days_above(day: u32) -> u32 {
    if day >= 31 { 0 } else { (u32::MAX << day) & (u32::MAX >> 1) }
}

pub(crate) fn post_month_insert(old: CompactMonth, new: CompactMonth, day: u32, r: bool) -> bool {
    // reports whether the day was new; exactly that bit is set; every other bit unchanged
    r == !has_m(old, day) && new.0 == old.0 | bit(day)
}

pub(crate) fn post_month_first(m: CompactMonth, r: Option<u32>) -> bool {
    match r {
        None => m.0 == 0,
        Some(d) => 1 <= d && d <= 31 && has_m(m, d) && m.0 & days_below(d) == 0,
    }
}

pub(crate) fn post_month_first_after(m: CompactMonth, day: u32, r: Option<u32>) -> bool {
    match r {
        None => m.0 & days_above(day) == 0,
        Some(d) => day < d && d <= 31 && has_m(m, d) && m.0 & days_above(day) & days_below(d) == 0,
    }
}

/// number of members, loop-free (SWAR bit count; proved equal to the bit-by-bit count in `popcount_spec_is_bit_count`)
pub(crate) fn popcount_spec(m: CompactMonth) -> u32 {
    let x = m.0;
    let x = x - ((x >> 1) & 0x5555_5555);
    let x = (x & 0x3333_3333) + ((x >> 2) & 0x3333_3333);
    ((x + (x >> 4)) & 0x0F0F_0F0F).wrapping_mul(0x0101_0101) >> 24
}

/// the declarative definition: how many days 1..=31 are members
fn popcount_by_days(m: CompactMonth) -> u32 {
    let mut n = 0;
    let mut d = 1;
    while d <= 31 {
        if has_m(m, d) {
            n += 1;
        }
        d += 1;
    }
    n
}

// ---- CompactYear ---------------------------------------------------------------------------------

pub(crate) fn wf_year(y: &CompactYear) -> bool {
    let m = &y.0;
    (m[0].0 | m[1].0 | m[2].0 | m[3].0 | m[4].0 | m[5].0 | m[6].0 | m[7].0 | m[8].0 | m[9].0 | m[10].0 | m[11].0) >> 31 == 0
}

pub(crate) fn has_y(y: &CompactYear, month: u32, day: u32) -> bool {
    has_m(y.0[(month - 1) as usize], day)
}

/// month i (0-based) of `new` is month i of `old` with `day` added iff i is the target month
fn month_after_insert(old: &CompactYear, new: &CompactYear, i: usize, month: u32, day: u32) -> bool {
    new.0[i].0 == if i as u32 + 1 == month { old.0[i].0 | bit(day) } else { old.0[i].0 }
}

pub(crate) fn post_year_insert(old: &CompactYear, new: &CompactYear, month: u32, day: u32, r: bool) -> bool {
    r == !has_y(old, month, day)
        && month_after_insert(old, new, 0, month, day)
        && month_after_insert(old, new, 1, month, day)
        && month_after_insert(old, new, 2, month, day)
        && month_after_insert(old, new, 3, month, day)
        && month_after_insert(old, new, 4, month, day)
        && month_after_insert(old, new, 5, month, day)
        && month_after_insert(old, new, 6, month, day)
        && month_after_insert(old, new, 7, month, day)
        && month_after_insert(old, new, 8, month, day)
        && month_after_insert(old, new, 9, month, day)
        && month_after_insert(old, new, 10, month, day)
        && month_after_insert(old, new, 11, month, day)
}

// Ghost query point for the whole-view postconditions of `first` / `first_after`: the contract clause is
// "for the date (GQ_MONTH, GQ_DAY): it is not a member lying before the result (resp. strictly between the
// argument and the result)".  The proving harness leaves the ghost symbolic, so the clause is proved for
// every query date; a caller that uses the contract through `stub_verified` sets the ghost to the query date
// of its own postcondition and so learns exactly the instance it needs.  Loop-free, hence cheap wherever
// Kani re-asserts the contract.
pub(crate) static mut GQ_MONTH: u32 = 1;
pub(crate) static mut GQ_DAY: u32 = 1;

pub(crate) fn gq() -> (u32, u32) {
    let q = unsafe { (GQ_MONTH, GQ_DAY) };
    if 1 <= q.0 && q.0 <= 12 && 1 <= q.1 && q.1 <= 31 { q } else { (1, 1) }
}

pub(crate) fn set_gq(month: u32, day: u32) {
    unsafe {
        GQ_MONTH = month;
        GQ_DAY = day;
    }
}

fn lt(a: (u32, u32), b: (u32, u32)) -> bool {
    a.0 < b.0 || (a.0 == b.0 && a.1 < b.1)
}

pub(crate) fn post_year_first(y: &CompactYear, r: Option<(u32, u32)>) -> bool {
    let q = gq();
    match r {
        None => !has_y(y, q.0, q.1),
        Some((m, d)) => {
            1 <= m && m <= 12 && 1 <= d && d <= 31 && has_y(y, m, d) && !(lt(q, (m, d)) && has_y(y, q.0, q.1))
        }
    }
}

pub(crate) fn post_year_first_after(y: &CompactYear, month: u32, day: u32, r: Option<(u32, u32)>) -> bool {
    let q = gq();
    match r {
        None => !(lt((month, day), q) && has_y(y, q.0, q.1)),
        Some((m, d)) => {
            1 <= m && m <= 12 && 1 <= d && d <= 31
                && lt((month, day), (m, d))
                && has_y(y, m, d)
                && !(lt((month, day), q) && lt(q, (m, d)) && has_y(y, q.0, q.1))
        }
    }
}

pub(crate) fn count_year_spec(y: &CompactYear) -> u32 {
    let m = &y.0;
    popcount_spec(m[0]) + popcount_spec(m[1]) + popcount_spec(m[2]) + popcount_spec(m[3])
        + popcount_spec(m[4]) + popcount_spec(m[5]) + popcount_spec(m[6]) + popcount_spec(m[7])
        + popcount_spec(m[8]) + popcount_spec(m[9]) + popcount_spec(m[10]) + popcount_spec(m[11])
}

// ---- symbolic values --------------------------------------------------------------------------------

fn any_month() -> CompactMonth {
    let m = CompactMonth(nd::u32());
    nd::assume(wf_month(m));
    m
}

fn any_day() -> u32 {
    let d = nd::u32();
    nd::assume(1 <= d && d <= 31);
    d
}

fn any_month_no() -> u32 {
    let m = nd::u32();
    nd::assume(1 <= m && m <= 12);
    m
}

fn any_year() -> CompactYear {
    let mut y = CompactYear::default();
    let mut i = 0;
    while i < 12 {
        y.0[i] = any_month();
        i += 1;
    }
    y
}

#[cfg(kani)]
impl kani::Arbitrary for CompactMonth {
    fn any() -> Self {
        let m = CompactMonth(kani::any());
        kani::assume(wf_month(m));
        m
    }
}

#[cfg(kani)]
impl kani::Arbitrary for CompactYear {
    fn any() -> Self {
        // written out: `kani::any::<[CompactMonth; 12]>()` is a 12-iteration loop that every caller using a
        // year contract through stub_verified would have to unwind
        let m = || -> CompactMonth { kani::any() };
        CompactYear([m(), m(), m(), m(), m(), m(), m(), m(), m(), m(), m(), m()])
    }
}

// ---- CompactMonth harnesses (complete: all 2^31 bitmaps x all days, loop-free) -------------------

//@H props=C15,C04 tier=quick kind=complete cap=600 domain="all bitmaps x day 1..=31"
#[cfg_attr(kani, kani::proof)] // contract of CompactMonth::insert in assert form, see module doc
#[cfg_attr(verif_replay, test)]
fn month_insert() {
    let mut m = any_month();
    let day = any_day();
    let q = any_day();
    let old = m;
    let r = m.insert(day);
    vpost!("C15.month.insert.reports_new_and_sets_exactly_that_day", post_month_insert(old, m, day, r));
    vpost!("C15.month.insert.frame_other_days_unchanged", q == day || has_m(m, q) == has_m(old, q));
    vpost!("C15.month.insert.then_contains", m.contains(day) && wf_month(m));
    vcover!("month_insert.new", r);
    vcover!("month_insert.dup", !r);
}

//@H props=C01,C02,C04,C15 tier=quick kind=complete cap=300 domain="all bitmaps x day 1..=31"
#[cfg_attr(kani, kani::proof_for_contract(CompactMonth::contains))]
#[cfg_attr(verif_replay, test)]
fn month_contains() {
    let m = any_month();
    let day = any_day();
    let r = m.contains(day);
    vpost!("C15.month.contains.is_membership", r == has_m(m, day));
    vcover!("month_contains.yes", r);
    vcover!("month_contains.no", !r);
}

//@H props=C02,C04,C15 tier=quick kind=complete cap=300 domain="all bitmaps"
#[cfg_attr(kani, kani::proof_for_contract(CompactMonth::first))]
#[cfg_attr(verif_replay, test)]
fn month_first() {
    let m = any_month();
    let q = any_day();
    let r = m.first();
    vpost!("C15.month.first.is_least_member", post_month_first(m, r));
    if let Some(d) = r {
        vpost!("C15.month.first.no_smaller_member", !(q < d && has_m(m, q)));
    } else {
        vpost!("C15.month.first.none_iff_empty", !has_m(m, q));
    }
    vcover!("month_first.some", r.is_some());
    vcover!("month_first.none", r.is_none());
}

//@H props=C02,C04,C15 tier=quick kind=complete cap=300 domain="all bitmaps x day 1..=31"
#[cfg_attr(kani, kani::proof_for_contract(CompactMonth::first_after))]
#[cfg_attr(verif_replay, test)]
fn month_first_after() {
    let m = any_month();
    let day = any_day();
    let q = any_day();
    let r = m.first_after(day);
    vpost!("C15.month.first_after.is_least_member_strictly_after", post_month_first_after(m, day, r));
    match r {
        Some(d) => {
            vpost!("C15.month.first_after.member_and_after", d > day && has_m(m, d));
            vpost!("C15.month.first_after.nothing_in_between", !(day < q && q < d && has_m(m, q)));
        }
        None => vpost!("C15.month.first_after.none_means_no_later_member", !(q > day && has_m(m, q))),
    }
    vcover!("month_first_after.some", r.is_some());
    vcover!("month_first_after.none_nonempty", r.is_none() && m.0 != 0);
    vcover!("month_first_after.day31", day == 31);
}

//@H props=C15,C04 tier=quick kind=complete cap=600 domain="all bitmaps"
#[cfg_attr(kani, kani::proof_for_contract(CompactMonth::count))]
#[cfg_attr(kani, kani::unwind(33))]
#[cfg_attr(verif_replay, test)]
fn month_count() {
    let m = any_month();
    let r = m.count();
    vpost!("C15.month.count.is_number_of_members", r == popcount_spec(m));
    vcover!("month_count.several", r > 3);
}

//@H props=C15 tier=quick kind=complete cap=600 domain="all bitmaps; the loop-free count used in contracts equals the day-by-day count"
#[cfg_attr(kani, kani::proof)]
#[cfg_attr(kani, kani::unwind(33))]
#[cfg_attr(verif_replay, test)]
fn popcount_spec_is_bit_count() {
    let m = any_month();
    vpost!("C15.month.count.spec_is_day_by_day_count", popcount_spec(m) == popcount_by_days(m));
    vcover!("popcount_spec.reachable", true);
}

//@H props=C15,C04 tier=quick kind=complete cap=900 domain="all bitmaps; loop closed by 31 bits (unwinding assertion on)"
#[cfg_attr(kani, kani::proof)]
#[cfg_attr(kani, kani::unwind(33))]
#[cfg_attr(verif_replay, test)]
fn month_iter() {
    let m = any_month();
    let q = any_day();
    let mut prev = 0;
    let mut n = 0;
    let mut seen_q = false;
    for d in m.iter() {
        vpost!("C15.month.iter.strictly_increasing_members", d > prev && d <= 31 && has_m(m, d));
        prev = d;
        n += 1;
        if d == q {
            seen_q = true;
        }
    }
    vpost!("C15.month.iter.yields_every_member", seen_q == has_m(m, q));
    vpost!("C15.month.iter.length_is_count", n == m.count());
    vcover!("month_iter.nonempty", n > 2);
}

//@H props=C15,C04 tier=quick kind=complete cap=600 domain="all u32 bitmaps; 4 bytes"
#[cfg_attr(kani, kani::proof)]
#[cfg_attr(kani, kani::unwind(6))]
#[cfg_attr(verif_replay, test)]
fn month_serde() {
    let m = CompactMonth(nd::u32());
    let extra = nd::u8();
    let mut buf: Vec<u8> = Vec::new();
    let w = m.serialize(&mut buf);
    vpost!("C15.month.serialize.writes_exactly_4_bytes", w.is_ok() && buf.len() == 4);
    buf.push(extra);
    let mut rd: &[u8] = &buf;
    let back = CompactMonth::deserialize(&mut rd);
    vpost!("C15.month.deserialize.roundtrip_equal", matches!(back, Ok(x) if x == m));
    vpost!("C15.month.deserialize.consumes_exactly_what_was_written", rd.len() == 1 && rd[0] == extra);
    vcover!("month_serde.reachable", true);
}

// ---- CompactYear harnesses (complete: 12 symbolic months; month operations replaced by their proved
//      contracts through stub_verified; loops closed by the constant 12) ----------------------------

//@H props=C15,C04 tier=quick kind=complete cap=600 domain="12 symbolic months x (month, day) x query (month, day)"
#[cfg_attr(kani, kani::proof)] // contract of CompactYear::insert in assert form, see module doc
#[cfg_attr(kani, kani::stub_verified(CompactMonth::insert))]
#[cfg_attr(kani, kani::unwind(14))]
#[cfg_attr(verif_replay, test)]
fn year_insert() {
    let mut y = any_year();
    let (month, day) = (any_month_no(), any_day());
    let (qm, qd) = (any_month_no(), any_day());
    let old = y;
    let r = y.insert(month, day);
    vpost!("C15.year.insert.reports_new_sets_exactly_that_date", post_year_insert(&old, &y, month, day, r));
    vpost!(
        "C15.year.insert.frame_other_dates_unchanged",
        has_y(&y, qm, qd) == ((qm == month && qd == day) || has_y(&old, qm, qd))
    );
    vcover!("year_insert.new", r);
    vcover!("year_insert.dup", !r);
}

//@H props=C01,C02,C04,C15 tier=quick kind=complete cap=600 domain="12 symbolic months x (month, day)"
#[cfg_attr(kani, kani::proof)] // contract of CompactYear::contains in assert form, see module doc
#[cfg_attr(kani, kani::stub_verified(CompactMonth::contains))]
#[cfg_attr(kani, kani::unwind(14))]
#[cfg_attr(verif_replay, test)]
fn year_contains() {
    let y = any_year();
    let (month, day) = (any_month_no(), any_day());
    let r = y.contains(month, day);
    vpost!("C15.year.contains.is_membership", r == has_y(&y, month, day));
    vcover!("year_contains.yes", r);
}

//@H props=C02,C04,C15 tier=quick kind=complete cap=900 domain="12 symbolic months x query (month, day)"
#[cfg_attr(kani, kani::proof)] // contract of CompactYear::first in assert form, see module doc
#[cfg_attr(kani, kani::stub_verified(CompactMonth::first))]
#[cfg_attr(kani, kani::unwind(14))]
#[cfg_attr(verif_replay, test)]
fn year_first() {
    let y = any_year();
    let (qm, qd) = (any_month_no(), any_day());
    set_gq(qm, qd);
    let r = y.first();
    vpost!("C15.year.first.is_least_member", post_year_first(&y, r));
    match r {
        Some((m, d)) => vpost!(
            "C15.year.first.no_smaller_member",
            has_y(&y, m, d) && !((qm < m || (qm == m && qd < d)) && has_y(&y, qm, qd))
        ),
        None => vpost!("C15.year.first.none_iff_empty", !has_y(&y, qm, qd)),
    }
    vcover!("year_first.later_month", matches!(r, Some((m, _)) if m > 3));
    vcover!("year_first.none", r.is_none());
}

//@H props=C02,C04,C15 tier=quick kind=complete cap=900 domain="12 symbolic months x (month, day) x query (month, day)"
#[cfg_attr(kani, kani::proof)] // contract of CompactYear::first_after in assert form, see module doc
#[cfg_attr(kani, kani::stub_verified(CompactMonth::first_after))]
#[cfg_attr(kani, kani::stub_verified(CompactMonth::first))]
#[cfg_attr(kani, kani::unwind(14))]
#[cfg_attr(verif_replay, test)]
fn year_first_after() {
    let y = any_year();
    let (month, day) = (any_month_no(), any_day());
    let (qm, qd) = (any_month_no(), any_day());
    set_gq(qm, qd);
    let r = y.first_after(month, day);
    vpost!("C15.year.first_after.is_least_member_strictly_after", post_year_first_after(&y, month, day, r));
    let q_after = qm > month || (qm == month && qd > day);
    match r {
        Some((m, d)) => vpost!(
            "C15.year.first_after.nothing_in_between",
            has_y(&y, m, d) && !(q_after && (qm < m || (qm == m && qd < d)) && has_y(&y, qm, qd))
        ),
        None => vpost!("C15.year.first_after.none_means_no_later_member", !(q_after && has_y(&y, qm, qd))),
    }
    vcover!("year_first_after.same_month", matches!(r, Some((m, _)) if m == month));
    vcover!("year_first_after.later_month", matches!(r, Some((m, _)) if m > month + 1));
    vcover!("year_first_after.none", r.is_none());
    vcover!("year_first_after.december", month == 12);
}

//@H props=C15,C04 tier=quick kind=complete cap=900 domain="12 symbolic months"
#[cfg_attr(kani, kani::proof)] // contract of CompactYear::count in assert form, see module doc
#[cfg_attr(kani, kani::stub_verified(CompactMonth::count))]
#[cfg_attr(kani, kani::unwind(14))]
#[cfg_attr(verif_replay, test)]
fn year_count() {
    let y = any_year();
    let r = y.count();
    vpost!("C15.year.count.is_number_of_members", r == count_year_spec(&y));
    vcover!("year_count.some", r > 12);
}

//@H props=C15,C04 tier=thorough kind=bounded cap=2400 domain="12 symbolic months; loops closed by 12 months x 31 bits (unwinding assertions on)" bound="at most 4 members per year"
#[cfg_attr(kani, kani::proof)]
#[cfg_attr(kani, kani::unwind(14))]
#[cfg_attr(verif_replay, test)]
fn year_iter() {
    let y = any_year();
    let (qm, qd) = (any_month_no(), any_day());
    nd::assume(count_year_spec(&y) <= 4);
    let mut prev = (0, 0);
    let mut n = 0;
    let mut seen_q = false;
    for (m, d) in y.iter() {
        vpost!("C15.year.iter.strictly_increasing_members", lt(prev, (m, d)) && 1 <= m && m <= 12 && has_y(&y, m, d));
        prev = (m, d);
        n += 1;
        if (m, d) == (qm, qd) {
            seen_q = true;
        }
    }
    vpost!("C15.year.iter.yields_every_member", seen_q == has_y(&y, qm, qd));
    vpost!("C15.year.iter.length_is_count", n == count_year_spec(&y));
    vcover!("year_iter.four", n == 4);
}

/// A reader that hands out its bytes in chunks of at most `chunk` bytes per `read` call (short reads are
/// legal for `io::Read`; decompressors and chained readers produce them).
struct ChunkReader<'a> {
    data: &'a [u8],
    chunk: usize,
}

impl io::Read for ChunkReader<'_> {
    fn read(&mut self, buf: &mut [u8]) -> io::Result<usize> {
        let n = buf.len().min(self.chunk).min(self.data.len());
        buf[..n].copy_from_slice(&self.data[..n]);
        self.data = &self.data[n..];
        Ok(n)
    }
}

//@H props=C15,C04 tier=quick kind=complete cap=600 domain="all u32 bitmaps; reader delivering 1..=4 bytes per read call"
#[cfg_attr(kani, kani::proof)]
#[cfg_attr(kani, kani::unwind(7))]
#[cfg_attr(verif_replay, test)]
fn month_serde_short_reads() {
    let m = CompactMonth(nd::u32());
    let chunk = nd::u8() as usize;
    nd::assume(1 <= chunk && chunk <= 4);
    let mut buf: Vec<u8> = Vec::with_capacity(8);
    let w = m.serialize(&mut buf);
    vpost!("C15.month.serialize.writes_exactly_4_bytes", w.is_ok() && buf.len() == 4);
    buf.push(0xA5);
    let mut rd = ChunkReader { data: &buf, chunk };
    let back = CompactMonth::deserialize(&mut rd);
    vpost!("C15.month.deserialize.roundtrip_equal_with_short_reads", matches!(back, Ok(x) if x == m));
    vpost!("C15.month.deserialize.consumes_exactly_what_was_written", rd.data.len() == 1 && rd.data[0] == 0xA5);
    vcover!("month_serde_short.one_byte_chunks", chunk == 1);
}

//@H props=C15,C04 tier=quick kind=complete cap=1800 domain="12 symbolic months (all u32 patterns); 48 bytes"
#[cfg_attr(kani, kani::proof)]
#[cfg_attr(kani, kani::unwind(14))]
#[cfg_attr(verif_replay, test)]
fn year_serde() {
    let mut y = CompactYear::default();
    let mut m = 0;
    while m < 12 {
        y.0[m] = CompactMonth(nd::u32());
        m += 1;
    }
    let extra = nd::u8();
    let mut buf: Vec<u8> = Vec::with_capacity(64);
    let w = y.serialize(&mut buf);
    vpost!("C15.year.serialize.writes_exactly_48_bytes", w.is_ok() && buf.len() == 48);
    buf.push(extra);
    let mut rd: &[u8] = &buf;
    let back = CompactYear::deserialize(&mut rd);
    vpost!("C15.year.deserialize.roundtrip_equal", matches!(back, Ok(x) if x == y));
    vpost!("C15.year.deserialize.consumes_exactly_what_was_written", rd.len() == 1 && rd[0] == extra);
    vcover!("year_serde.reachable", true);
}

// ---- CompactCalendar: view, invariants, symbolic values -------------------------------------------

/// chrono's representable years (NaiveDate::MIN / MAX)
const YEAR_MIN: i32 = -262_143;
const YEAR_MAX: i32 = 262_142;

/// abstract view: membership of a date in the calendar's set, read directly off the representation
pub(crate) fn has_c(c: &CompactCalendar, d: NaiveDate) -> bool {
    let off = d.year() as i64 - c.first_year as i64;
    if off < 0 || off >= c.calendar.len() as i64 {
        return false;
    }
    has_y(&c.calendar[off as usize], d.month(), d.day())
}

fn year_nonempty(y: &CompactYear) -> bool {
    let m = &y.0;
    (m[0].0 | m[1].0 | m[2].0 | m[3].0 | m[4].0 | m[5].0 | m[6].0 | m[7].0 | m[8].0 | m[9].0 | m[10].0 | m[11].0) != 0
}

/// edge invariant established by `default()` and preserved by `insert`: the stored window is either
/// empty (and then first_year is the default 0) or begins and ends with a non-empty year.  Under it the
/// derived `==` is set equality.
pub(crate) fn wf_edges(c: &CompactCalendar) -> bool {
    match (c.calendar.front(), c.calendar.back()) {
        (Some(f), Some(b)) => year_nonempty(f) && year_nonempty(b),
        _ => c.first_year == 0,
    }
}

/// symbolic date with year in [y0, y1]
fn any_date(y0: i32, y1: i32) -> NaiveDate {
    let y = nd::i32();
    let m = nd::u32();
    let d = nd::u32();
    nd::assume(y0 <= y && y <= y1 && 1 <= m && m <= 12 && 1 <= d && d <= 31);
    let date = NaiveDate::from_ymd_opt(y, m, d);
    nd::assume(date.is_some());
    date.unwrap()
}

/// Window growth allowed per insertion (the two growth loops of `insert` are unwound GROW + 1 times,
/// unwinding assertions on).
const GROW: i32 = 3;

fn is_leap(y: i32) -> bool {
    (y % 4 == 0 && y % 100 != 0) || y % 400 == 0
}

/// representation invariant of one stored year: only valid dates of that year are set - what
/// `insert(NaiveDate)` can produce.  Loop-free.
fn valid_year(y: &CompactYear, year: i32) -> bool {
    let m = &y.0;
    let feb = if is_leap(year) { 29 } else { 28 };
    m[0].0 >> 31 == 0 && m[1].0 >> feb == 0 && m[2].0 >> 31 == 0 && m[3].0 >> 30 == 0
        && m[4].0 >> 31 == 0 && m[5].0 >> 30 == 0 && m[6].0 >> 31 == 0 && m[7].0 >> 31 == 0
        && m[8].0 >> 30 == 0 && m[9].0 >> 31 == 0 && m[10].0 >> 30 == 0 && m[11].0 >> 31 == 0
}

fn any_year_raw() -> CompactYear {
    let m = || CompactMonth(nd::u32());
    CompactYear([m(), m(), m(), m(), m(), m(), m(), m(), m(), m(), m(), m()])
}

/// symbolic calendar with exactly N stored years (N <= 3; every bit of every month symbolic), window
/// anywhere in chrono's range, satisfying the representation invariant
fn any_calendar<const N: usize>() -> CompactCalendar {
    let first_year = nd::i32();
    nd::assume(YEAR_MIN <= first_year && first_year <= YEAR_MAX - 3);
    let mut v = Vec::with_capacity(N);
    if N >= 1 {
        let y = any_year_raw();
        nd::assume(valid_year(&y, first_year));
        v.push(y);
    }
    if N >= 2 {
        let y = any_year_raw();
        nd::assume(valid_year(&y, first_year + 1));
        v.push(y);
    }
    if N >= 3 {
        let y = any_year_raw();
        nd::assume(valid_year(&y, first_year + 2));
        v.push(y);
    }
    CompactCalendar { first_year: if N == 0 { 0 } else { first_year }, calendar: VecDeque::from(v) }
}

fn window<const N: usize>(c: &CompactCalendar, slack: i32) -> (i32, i32) {
    if N == 0 {
        (YEAR_MIN, YEAR_MAX)
    } else {
        ((c.first_year - slack).max(YEAR_MIN), (c.first_year + N as i32 - 1 + slack).min(YEAR_MAX))
    }
}

// ---- CompactCalendar harnesses: bounded by the number N of stored years and by GROW.  Year-level
//      operations are replaced by their contracts (stub_verified), so no 12-month loop is left; the window
//      may sit anywhere in chrono's range.

fn cal_insert_n<const N: usize>() {
    let mut c = any_calendar::<N>();
    let (lo, hi) = window::<N>(&c, GROW);
    let x = any_date(lo, hi);
    let q = any_date(YEAR_MIN, YEAR_MAX);
    let old_has_x = has_c(&c, x);
    let old_has_q = has_c(&c, q);
    let old_count = c.count();
    let old_first_year = c.first_year;
    vpost!("C15.calendar.contains.is_membership", c.contains(q) == old_has_q);
    let r = c.insert(x);
    vpost!("C15.calendar.insert.reports_whether_new", r == !old_has_x);
    vpost!("C15.calendar.insert.exactly_the_inserted_date_is_added", has_c(&c, q) == (q == x || old_has_q));
    vpost!("C15.calendar.insert.contains_agrees_after", c.contains(q) == has_c(&c, q) && c.contains(x));
    vpost!("C15.calendar.insert.count_grows_by_one_iff_new", c.count() == old_count + r as u32);
    vcover!("cal_insert.new", r);
    vcover!("cal_insert.dup", N == 0 || !r);
    vcover!("cal_insert.grow_front_over_gap", N == 0 || x.year() < old_first_year - 1);
    vcover!("cal_insert.grow_back_over_gap", N == 0 || x.year() > old_first_year + N as i32);
    vcover!("cal_insert.q_other_member", N == 0 || (old_has_q && q != x));
    vcover!("cal_insert.q_outside_window", N == 0 || q.year() > hi + 5);
}

//@H props=C15,C04 tier=quick kind=bounded cap=900 bound="0 stored years (the empty calendar)" domain="any date, query date anywhere in chrono's range"
#[cfg_attr(kani, kani::proof)]
#[cfg_attr(kani, kani::stub_verified(CompactYear::insert))]
#[cfg_attr(kani, kani::stub_verified(CompactYear::contains))]
#[cfg_attr(kani, kani::stub_verified(CompactYear::count))]
#[cfg_attr(kani, kani::unwind(6))]
#[cfg_attr(verif_replay, test)]
fn cal_insert_0() {
    cal_insert_n::<0>()
}

//@H props=C15,C04 tier=thorough kind=bounded cap=3000 mem=medium bound="1 stored year, window growth <= 3 years" domain="all bitmaps of valid dates, window anywhere in chrono's range"
#[cfg_attr(kani, kani::proof)]
#[cfg_attr(kani, kani::stub_verified(CompactYear::insert))]
#[cfg_attr(kani, kani::stub_verified(CompactYear::contains))]
#[cfg_attr(kani, kani::stub_verified(CompactYear::count))]
#[cfg_attr(kani, kani::unwind(6))]
#[cfg_attr(verif_replay, test)]
fn cal_insert_1() {
    cal_insert_n::<1>()
}

//@H props=C15,C04 tier=deep kind=bounded cap=3000 mem=medium bound="2 stored years, window growth <= 3 years" domain="all bitmaps of valid dates, window anywhere in chrono's range"
#[cfg_attr(kani, kani::proof)]
#[cfg_attr(kani, kani::stub_verified(CompactYear::insert))]
#[cfg_attr(kani, kani::stub_verified(CompactYear::contains))]
#[cfg_attr(kani, kani::stub_verified(CompactYear::count))]
#[cfg_attr(kani, kani::unwind(6))]
#[cfg_attr(verif_replay, test)]
fn cal_insert_2() {
    cal_insert_n::<2>()
}

fn cal_first_after_n<const N: usize>(before_window: bool) {
    let c = any_calendar::<N>();
    let (lo, hi) = window::<N>(&c, 1);
    let p = any_date(lo, hi);
    nd::assume(before_window == (p.year() < c.first_year));
    let q = any_date(lo, hi);
    // the contracts of CompactYear::first / first_after speak about the ghost query date
    set_gq(q.month(), q.day());
    let r = c.first_after(p);
    match r {
        Some(x) => {
            vpost!("C15.calendar.first_after.is_member_strictly_after", x > p && has_c(&c, x));
            vpost!("C15.calendar.first_after.no_member_in_between", !(p < q && q < x && has_c(&c, q)));
            vcover!("cal_first_after.same_year", before_window || x.year() == p.year());
            vcover!("cal_first_after.later_year", before_window || N < 2 || x.year() > p.year());
            vcover!("cal_first_after.skips_empty_year", before_window || N < 3 || x.year() > p.year() + 1);
            vcover!("cal_first_after.before_window", !before_window || x.year() > c.first_year || N < 2);
        }
        None => {
            vpost!("C15.calendar.first_after.none_means_no_later_member", !(q > p && has_c(&c, q)));
            vcover!("cal_first_after.none", true);
        }
    }
    vcover!("cal_first_after.after_window", before_window || p.year() > c.first_year + N as i32 - 1);
}

//@H props=C02,C04,C15 tier=quick kind=bounded cap=1500 bound="1 stored year, argument inside or after the window" domain="all bitmaps of valid dates; argument and query dates within 1 year of the window; window anywhere"
#[cfg_attr(kani, kani::proof)]
#[cfg_attr(kani, kani::stub_verified(CompactYear::first_after))]
#[cfg_attr(kani, kani::stub_verified(CompactYear::first))]
#[cfg_attr(kani, kani::unwind(6))]
#[cfg_attr(verif_replay, test)]
fn cal_first_after_1() {
    cal_first_after_n::<1>(false)
}

//@H tier_C04=thorough props=C02,C04,C15 tier=quick kind=bounded cap=1800 bound="3 stored years (the middle one may be empty), argument inside or after the window" domain="all bitmaps of valid dates; argument and query dates within 1 year of the window; window anywhere"
#[cfg_attr(kani, kani::proof)]
#[cfg_attr(kani, kani::stub_verified(CompactYear::first_after))]
#[cfg_attr(kani, kani::stub_verified(CompactYear::first))]
#[cfg_attr(kani, kani::unwind(6))]
#[cfg_attr(verif_replay, test)]
fn cal_first_after_3() {
    cal_first_after_n::<3>(false)
}

//@H props=C15,C04 tier=deep kind=bounded cap=3000 mem=medium bound="2 stored years, argument before the window" domain="all bitmaps of valid dates; window anywhere"
#[cfg_attr(kani, kani::proof)]
#[cfg_attr(kani, kani::unwind(14))]
#[cfg_attr(verif_replay, test)]
fn cal_first_after_before_window_2() {
    cal_first_after_n::<2>(true)
}

//@H props=C15,C04 tier=quick kind=bounded cap=1500 bound="1 insertion into the empty calendar" domain="any date, any query date of chrono's range"
#[cfg_attr(kani, kani::proof)]
#[cfg_attr(kani, kani::stub_verified(CompactYear::insert))]
#[cfg_attr(kani, kani::stub_verified(CompactYear::contains))]
#[cfg_attr(kani, kani::stub_verified(CompactYear::count))]
#[cfg_attr(kani, kani::unwind(6))]
#[cfg_attr(verif_replay, test)]
fn cal_seq1_members() {
    let d1 = any_date(YEAR_MIN, YEAR_MAX);
    let q = any_date(YEAR_MIN, YEAR_MAX);
    let mut c = CompactCalendar::default();
    vpost!("C15.calendar.empty.contains_nothing", !c.contains(q) && c.count() == 0 && wf_edges(&c));
    let r1 = c.insert(d1);
    vpost!("C15.calendar.insert.reports_whether_new", r1);
    vpost!("C15.calendar.contains.exactly_the_inserted_dates", c.contains(q) == (q == d1));
    vpost!("C15.calendar.contains.is_membership_in_the_view", c.contains(q) == has_c(&c, q));
    vpost!("C15.calendar.count.is_number_of_distinct_dates", c.count() == 1);
    vpost!("C15.calendar.insert.preserves_edge_invariant", wf_edges(&c));
    vcover!("cal_seq1.negative_year", d1.year() < 0);
}

//@H props=C15,C04 tier=thorough kind=bounded cap=3000 mem=medium bound="2 insertions into the empty calendar, at most 3 years apart" domain="any dates, any query date of chrono's range"
#[cfg_attr(kani, kani::proof)]
#[cfg_attr(kani, kani::stub_verified(CompactYear::insert))]
#[cfg_attr(kani, kani::stub_verified(CompactYear::contains))]
#[cfg_attr(kani, kani::stub_verified(CompactYear::count))]
#[cfg_attr(kani, kani::unwind(6))]
#[cfg_attr(verif_replay, test)]
fn cal_seq2_members() {
    let d1 = any_date(YEAR_MIN, YEAR_MAX);
    let d2 = any_date(YEAR_MIN, YEAR_MAX);
    let q = any_date(YEAR_MIN, YEAR_MAX);
    nd::assume((d1.year() as i64 - d2.year() as i64).abs() <= GROW as i64);
    let mut c = CompactCalendar::default();
    let r1 = c.insert(d1);
    let r2 = c.insert(d2);
    vpost!("C15.calendar.insert.reports_whether_new", r1 && r2 == (d1 != d2));
    vpost!("C15.calendar.contains.exactly_the_inserted_dates", c.contains(q) == (q == d1 || q == d2));
    vpost!("C15.calendar.contains.is_membership_in_the_view", c.contains(q) == has_c(&c, q));
    vpost!("C15.calendar.count.is_number_of_distinct_dates", c.count() == if d1 == d2 { 1 } else { 2 });
    vpost!("C15.calendar.insert.preserves_edge_invariant", wf_edges(&c));
    vcover!("cal_seq2.grow_front", d2.year() < d1.year() - 1);
    vcover!("cal_seq2.grow_back", d2.year() > d1.year() + 1);
    vcover!("cal_seq2.same_year", d2.year() == d1.year() && d1 != d2);
    vcover!("cal_seq2.duplicate", d1 == d2);
}

//@H props=C15 tier=deep kind=bounded cap=3000 mem=medium bound="two insertions into the empty calendar, both orders, at most 1 year apart" domain="any two dates"
#[cfg_attr(kani, kani::proof)]
#[cfg_attr(kani, kani::stub_verified(CompactYear::insert))]
#[cfg_attr(kani, kani::unwind(14))]
#[cfg_attr(verif_replay, test)]
fn cal_eq_is_set_equality() {
    let d1 = any_date(YEAR_MIN, YEAR_MAX);
    let d2 = any_date(YEAR_MIN, YEAR_MAX);
    nd::assume((d1.year() as i64 - d2.year() as i64).abs() <= 1);
    let mut a = CompactCalendar::default();
    a.insert(d1);
    a.insert(d2);
    let mut b = CompactCalendar::default();
    b.insert(d2);
    b.insert(d1);
    let mut single = CompactCalendar::default();
    single.insert(d1);
    vpost!("C15.calendar.eq.same_set_inserted_in_either_order_is_equal", a == b);
    vpost!("C15.calendar.eq.different_sets_are_unequal", (a == single) == (d1 == d2));
    vpost!("C15.calendar.eq.empty_differs_from_nonempty", a != CompactCalendar::default());
    vcover!("cal_eq.different_years", d1.year() < d2.year());
    vcover!("cal_eq.same_date", d1 == d2);
}

//@H props=C15 tier=quick kind=bounded cap=1500 bound="two calendars of 2 stored years each" domain="all bitmaps; equal calendars have equal membership at any query date"
#[cfg_attr(kani, kani::proof)]
#[cfg_attr(kani, kani::unwind(14))]
#[cfg_attr(verif_replay, test)]
fn cal_eq_implies_same_members() {
    let a = any_calendar::<2>();
    let b = any_calendar::<2>();
    let q = any_date(YEAR_MIN, YEAR_MAX);
    if a == b {
        vpost!("C15.calendar.eq.equal_calendars_have_the_same_members", has_c(&a, q) == has_c(&b, q));
        vcover!("cal_eq2.equal_and_member", has_c(&a, q));
    }
}

//@H props=C15,C04 tier=deep kind=bounded cap=3000 mem=medium bound="2 stored years, at most 2 members" domain="positions symbolic, window anywhere"
#[cfg_attr(kani, kani::proof)]
#[cfg_attr(kani, kani::unwind(14))]
#[cfg_attr(verif_replay, test)]
fn cal_iter_2() {
    let c = any_calendar::<2>();
    let q = any_date(c.first_year, c.first_year + 1);
    nd::assume(count_year_spec(&c.calendar[0]) + count_year_spec(&c.calendar[1]) <= 2);
    let mut prev: Option<NaiveDate> = None;
    let mut n = 0;
    let mut seen_q = false;
    for d in c.iter() {
        vpost!("C15.calendar.iter.strictly_increasing_members", prev.map_or(true, |p| p < d) && has_c(&c, d));
        prev = Some(d);
        n += 1;
        if d == q {
            seen_q = true;
        }
    }
    vpost!("C15.calendar.iter.yields_every_member", seen_q == has_c(&c, q));
    vpost!("C15.calendar.iter.length_is_count", n == c.count());
    vcover!("cal_iter.two_years", n == 2 && prev.map_or(false, |p| p.year() > c.first_year));
}

//@H props=C15,C04 tier=quick kind=bounded cap=900 bound="the empty calendar followed by 4 arbitrary bytes in the same stream" domain="all values of the trailing bytes"
#[cfg_attr(kani, kani::proof)]
#[cfg_attr(kani, kani::unwind(14))]
#[cfg_attr(verif_replay, test)]
fn cal_serde_0() {
    let a = CompactCalendar::default();
    let mut buf: Vec<u8> = Vec::with_capacity(32);
    let wa = a.serialize(&mut buf);
    vpost!("C15.calendar.serialize.writes_12_plus_48_bytes_per_year", wa.is_ok() && buf.len() == 12);
    let tail = [nd::u8(), nd::u8(), nd::u8(), nd::u8()];
    buf.extend_from_slice(&tail);
    let mut rd: &[u8] = &buf;
    let ra = CompactCalendar::deserialize(&mut rd);
    vpost!("C15.calendar.deserialize.consumes_exactly_the_bytes_written", rd.len() == 4 && rd[0] == tail[0] && rd[3] == tail[3]);
    vpost!("C15.calendar.deserialize.roundtrip_equal", matches!(&ra, Ok(x) if *x == a && x.count() == 0));
    vcover!("cal_serde_0.reachable", true);
}

//@H props=C15,C04 tier=deep kind=bounded cap=3000 mem=medium bound="1 stored year; stream = calendar ++ empty calendar" domain="all bit patterns, any first_year"
#[cfg_attr(kani, kani::proof)]
#[cfg_attr(kani, kani::unwind(14))]
#[cfg_attr(verif_replay, test)]
fn cal_serde_1() {
    let a = CompactCalendar { first_year: nd::i32(), calendar: VecDeque::from(vec![any_year_raw()]) };
    let b = CompactCalendar::default();
    let mut buf: Vec<u8> = Vec::with_capacity(128);
    let wa = a.serialize(&mut buf);
    vpost!("C15.calendar.serialize.writes_12_plus_48_bytes_per_year", wa.is_ok() && buf.len() == 12 + 48);
    let wb = b.serialize(&mut buf);
    vpost!("C15.calendar.serialize.appends", wb.is_ok() && buf.len() == 24 + 48);
    let mut rd: &[u8] = &buf;
    let ra = CompactCalendar::deserialize(&mut rd);
    vpost!("C15.calendar.deserialize.consumes_exactly_the_bytes_written", rd.len() == 12);
    vpost!("C15.calendar.deserialize.roundtrip_equal", matches!(&ra, Ok(x) if *x == a));
    let rb = CompactCalendar::deserialize(&mut rd);
    vpost!("C15.calendar.deserialize.second_calendar_in_the_same_stream", matches!(&rb, Ok(x) if *x == b) && rd.is_empty());
    vcover!("cal_serde.reachable", true);
}

// ---- the same contracts through Kani's own contract instrumentation (proof_for_contract) ----------------
// These are the harnesses `stub_verified` refers to.  They are expensive (dynamic frame checking), so the
// costly ones run in the thorough tier; the quick tier discharges the identical predicates in assert form.

//@H props=C15 tier=thorough kind=complete cap=1200 mem=medium domain="all bitmaps x day 1..=31"
#[cfg_attr(kani, kani::proof_for_contract(CompactMonth::insert))]
#[cfg_attr(verif_replay, test)]
fn month_insert_contract() {
    let mut m = any_month();
    let day = any_day();
    m.insert(day);
    vcover!("month_insert_contract.reachable", true);
}

//@H props=C15 tier=thorough kind=complete cap=2400 mem=medium domain="12 symbolic months x (month, day)"
#[cfg_attr(kani, kani::proof_for_contract(CompactYear::insert))]
#[cfg_attr(kani, kani::stub_verified(CompactMonth::insert))]
#[cfg_attr(kani, kani::unwind(14))]
#[cfg_attr(verif_replay, test)]
fn year_insert_contract() {
    let mut y = any_year();
    let (month, day) = (any_month_no(), any_day());
    y.insert(month, day);
    vcover!("year_insert_contract.reachable", true);
}

//@H props=C15 tier=thorough kind=complete cap=1200 mem=medium domain="12 symbolic months x (month, day)"
#[cfg_attr(kani, kani::proof_for_contract(CompactYear::contains))]
#[cfg_attr(kani, kani::stub_verified(CompactMonth::contains))]
#[cfg_attr(kani, kani::unwind(14))]
#[cfg_attr(verif_replay, test)]
fn year_contains_contract() {
    let y = any_year();
    let (month, day) = (any_month_no(), any_day());
    y.contains(month, day);
    vcover!("year_contains_contract.reachable", true);
}

//@H props=C15 tier=deep kind=complete cap=3000 mem=heavy domain="12 symbolic months x ghost query"
#[cfg_attr(kani, kani::proof_for_contract(CompactYear::first))]
#[cfg_attr(kani, kani::stub_verified(CompactMonth::first))]
#[cfg_attr(kani, kani::unwind(14))]
#[cfg_attr(verif_replay, test)]
fn year_first_contract() {
    let y = any_year();
    set_gq(any_month_no(), any_day());
    y.first();
    vcover!("year_first_contract.reachable", true);
}

//@H props=C15 tier=deep kind=complete cap=3000 mem=heavy domain="12 symbolic months x (month, day) x ghost query"
#[cfg_attr(kani, kani::proof_for_contract(CompactYear::first_after))]
#[cfg_attr(kani, kani::stub_verified(CompactMonth::first_after))]
#[cfg_attr(kani, kani::stub_verified(CompactMonth::first))]
#[cfg_attr(kani, kani::unwind(14))]
#[cfg_attr(verif_replay, test)]
fn year_first_after_contract() {
    let y = any_year();
    let (month, day) = (any_month_no(), any_day());
    set_gq(any_month_no(), any_day());
    y.first_after(month, day);
    vcover!("year_first_after_contract.reachable", true);
}

//@H props=C15 tier=thorough kind=complete cap=1200 mem=medium domain="12 symbolic months"
#[cfg_attr(kani, kani::proof_for_contract(CompactYear::count))]
#[cfg_attr(kani, kani::stub_verified(CompactMonth::count))]
#[cfg_attr(kani, kani::unwind(14))]
#[cfg_attr(verif_replay, test)]
fn year_count_contract() {
    let y = any_year();
    y.count();
    vcover!("year_count_contract.reachable", true);
}

//@H props=ENGINE tier=quick kind=canary cap=120 expect=fail
#[cfg_attr(kani, kani::proof)]
#[cfg_attr(verif_replay, test)]
fn canary_calendar_must_fail() {
    let m = any_month();
    vpost!("CANARY.calendar.must_fail", m.0 != 12345);
}
