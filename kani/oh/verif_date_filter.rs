//! C01 (selector semantics), C02 (next_change_hint lower bounds), C04 (no panic in the selector code),
//! C08 (hints never leave the supported range): contracts in assert form and harnesses for
//! `opening-hours/src/filter/date_filter.rs`.  Child module of `filter::date_filter` (overlaid).
//!
//! Each selector's `filter` gets the postcondition `filter(node, date) == spec(node, date)` where the spec
//! is a short arithmetic predicate over (year, month, day, ISO week, weekday) written from the property
//! statement / OSM semantics - for every node satisfying the AST invariant `valid_*` (read off grammar.pest and
//! the build_* functions; the parser itself is not verified, see C05) and every date 1900-01-01..9999-12-31.
//! Each `next_change_hint` gets the contract
//!     Some(h)  ==>  h > d  &&  h <= 10000-01-01  &&  forall d' in (d, h): filter(d') == filter(d)
//! with `d'` one extra symbolic date - soundness of a skip is a statement about every skipped day.
use super::*;
use chrono::NaiveDate;
use opening_hours_syntax::rules::day::{HolidayKind, WeekNum, WeekRange, Year, YearRange};
use opening_hours_syntax::verif_nd as nd;
use opening_hours_syntax::{vcover, vpost};

pub(crate) fn date_start() -> NaiveDate {
    DATE_START.date()
}

pub(crate) fn date_end() -> NaiveDate {
    DATE_END.date()
}

/// any date of the supported range 1900-01-01 ..= 9999-12-31
pub(crate) fn any_date() -> NaiveDate {
    let y = nd::i32();
    let o = nd::u32();
    nd::assume(1900 <= y && y <= 9999 && 1 <= o && o <= 366);
    let d = NaiveDate::from_yo_opt(y, o);
    nd::assume(d.is_some());
    d.unwrap()
}

fn ctx() -> Context {
    Context::default()
}

fn in_wrapping<T: PartialOrd>(s: T, e: T, x: T) -> bool {
    if s <= e { s <= x && x <= e } else { x >= s || x <= e }
}

/// the contract of every `next_change_hint`, for one symbolic intermediate date
fn hint_ok(d: NaiveDate, h: NaiveDate, between: NaiveDate, f_d: bool, f_between: bool) -> bool {
    h > d && h <= date_end() && !(d < between && between < h && f_between != f_d)
}

// ---- WrappingRange ---------------------------------------------------------------------------------

//@H props=C01,C04 tier=quick kind=complete cap=300 domain="all u8 / u16 triples"
#[cfg_attr(kani, kani::proof)]
#[cfg_attr(verif_replay, test)]
fn wrapping_contains_spec() {
    let (s, e, x) = (nd::u8(), nd::u8(), nd::u8());
    vpost!("C01.wrapping_range.u8_contains_iff_between_or_wrapped", (s..=e).wrapping_contains(&x) == in_wrapping(s, e, x));
    let (s, e, x) = (nd::u16(), nd::u16(), nd::u16());
    vpost!("C01.wrapping_range.u16_contains_iff_between_or_wrapped", (s..=e).wrapping_contains(&x) == in_wrapping(s, e, x));
    vcover!("wrapping.wrapped_hit", s > e && x <= e);
}

// ---- YearRange -----------------------------------------------------------------------------------------

fn any_year_range() -> YearRange {
    let (s, e, step) = (nd::u16(), nd::u16(), nd::u16());
    // AST invariant (grammar: year = 19xx..9999 four digits >= 1900; build_year_range rejects step 0)
    nd::assume(1900 <= s && s <= 9999 && 1900 <= e && e <= 9999 && step >= 1);
    YearRange { range: Year(s)..=Year(e), step }
}

fn year_spec(r: &YearRange, date: NaiveDate) -> Option<bool> {
    let (s, e) = (r.range.start().0 as i32, r.range.end().0 as i32);
    let y = date.year();
    if s <= e {
        Some(s <= y && y <= e && (y - s) % (r.step as i32) == 0)
    } else if r.step == 1 {
        Some(y >= s || y <= e)
    } else {
        // a wrapping year range with a step is not defined by the statement: only "outside the range => false"
        if y >= s || y <= e { None } else { Some(false) }
    }
}

//@H props=C01,C04 tier=quick kind=complete cap=600 domain="all (start, end, step) x all dates 1900..9999"
#[cfg_attr(kani, kani::proof)]
#[cfg_attr(verif_replay, test)]
fn year_filter() {
    let r = any_year_range();
    let d = any_date();
    let got = r.filter(d, &ctx());
    let spec = year_spec(&r, d);
    vpost!("C01.year.filter_is_range_and_step", spec.map_or(true, |s| s == got));
    vcover!("year_filter.step_hit", got && r.step > 1 && d.year() > r.range.start().0 as i32);
    vcover!("year_filter.step_miss", !got && r.step > 1 && d.year() > r.range.start().0 as i32 && d.year() < r.range.end().0 as i32);
    vcover!("year_filter.wrapping", r.range.start() > r.range.end() && got);
}

fn year_hint_body(r: YearRange) {
    let d = any_date();
    let between = any_date();
    let c = ctx();
    let hint = r.next_change_hint(d, &c);
    if let Some(h) = hint {
        vpost!(
            "C02.year.hint_no_change_before_hint",
            hint_ok(d, h, between, r.filter(d, &c), r.filter(between, &c))
        );
        vpost!("C08.year.hint_within_supported_range", h <= date_end());
    }
    vcover!("year_hint.some", hint.is_some());
    vcover!("year_hint.before_range", hint.is_some() && d.year() < r.range.start().0 as i32);
    vcover!("year_hint.after_range", hint == Some(date_end()));
}

//@H props=C02,C08,C04 tier=quick kind=complete cap=900 domain="step = 1: all (start, end) x all dates x all intermediate dates"
#[cfg_attr(kani, kani::proof)]
#[cfg_attr(verif_replay, test)]
fn year_hint_step1() {
    let r = any_year_range();
    nd::assume(r.step == 1);
    year_hint_body(r);
}

//@H props=C02,C08,C04 tier=deep kind=bounded cap=3000 mem=medium bound="2 <= step <= 4" domain="all (start, end) x all dates x all intermediate dates"
#[cfg_attr(kani, kani::proof)]
#[cfg_attr(verif_replay, test)]
fn year_hint_step_2_to_4() {
    let r = any_year_range();
    nd::assume(2 <= r.step && r.step <= 4);
    year_hint_body(r);
}

// ---- WeekRange -------------------------------------------------------------------------------------------

fn any_week_range() -> WeekRange {
    let (s, e, step) = (nd::u8(), nd::u8(), nd::u8());
    // AST invariant (grammar: weeknum 01..53; build_week rejects step 0)
    nd::assume(1 <= s && s <= 53 && 1 <= e && e <= 53 && step >= 1);
    WeekRange { range: WeekNum(s)..=WeekNum(e), step }
}

fn week_spec(r: &WeekRange, date: NaiveDate) -> Option<bool> {
    let (s, e) = (r.range.start().0 as u32, r.range.end().0 as u32);
    let w = date.iso_week().week();
    if s <= e {
        Some(s <= w && w <= e && (w - s) % (r.step as u32) == 0)
    } else if r.step == 1 {
        Some(w >= s || w <= e)
    } else {
        if w >= s || w <= e { None } else { Some(false) }
    }
}

//@H props=C01,C04 tier=quick kind=complete cap=600 domain="all (start, end, step) x all dates 1900..9999"
#[cfg_attr(kani, kani::proof)]
#[cfg_attr(verif_replay, test)]
fn week_filter() {
    let r = any_week_range();
    let d = any_date();
    let got = r.filter(d, &ctx());
    let spec = week_spec(&r, d);
    vpost!("C01.week.filter_is_iso_week_in_range_and_step", spec.map_or(true, |s| s == got));
    vcover!("week_filter.week53", got && d.iso_week().week() == 53);
    vcover!("week_filter.step_miss", !got && r.step > 1 && in_wrapping(r.range.start().0, r.range.end().0, d.iso_week().week() as u8));
    vcover!("week_filter.wrapping", r.range.start() > r.range.end() && got);
    vcover!("week_filter.week1_in_december", got && d.iso_week().week() == 1 && d.month() == 12);
}

//@H props=C02,C08,C04 tier=quick kind=complete cap=1500 domain="all (start, end, step) x all dates x all intermediate dates; loop closed by the ISO-year step (unwinding assertion on)"
#[cfg_attr(kani, kani::proof)]
#[cfg_attr(kani, kani::unwind(4))]
#[cfg_attr(verif_replay, test)]
fn week_hint() {
    let r = any_week_range();
    let d = any_date();
    let between = any_date();
    let c = ctx();
    let hint = r.next_change_hint(d, &c);
    if let Some(h) = hint {
        vpost!(
            "C02.week.hint_no_change_before_hint",
            h > d && !(d < between && between < h && r.filter(between, &c) != r.filter(d, &c))
        );
        vpost!("C08.week.hint_within_supported_range_or_dropped", h <= date_end() || h.year() == 10000);
    }
    vcover!("week_hint.some_in_range", hint.is_some() && r.filter(d, &c));
    vcover!("week_hint.some_out_of_range", hint.is_some() && !r.filter(d, &c));
    vcover!("week_hint.next_iso_year", matches!(hint, Some(h) if h.year() > d.year()));
}

// ---- MonthdayRange::Month ------------------------------------------------------------------------------

pub(crate) fn any_month() -> Month {
    let m = nd::u8();
    nd::assume(1 <= m && m <= 12);
    Month::try_from(m).unwrap()
}

fn any_opt_year() -> Option<u16> {
    let y = nd::u16();
    if nd::bool() {
        nd::assume(1900 <= y && y <= 9999);
        Some(y)
    } else {
        None
    }
}

//@H props=C01,C04 tier=quick kind=complete cap=600 domain="all (start, end, optional year) x all dates 1900..9999"
#[cfg_attr(kani, kani::proof)]
#[cfg_attr(verif_replay, test)]
fn month_filter() {
    let (s, e, year) = (any_month(), any_month(), any_opt_year());
    let r = ds::MonthdayRange::Month { range: s..=e, year };
    let d = any_date();
    let got = r.filter(d, &ctx());
    let in_months = in_wrapping(s as u32, e as u32, d.month());
    match year {
        None => vpost!("C01.month.filter_is_month_in_wrapping_range", got == in_months),
        Some(y) => {
            // a wrapping month range with a year is not defined by the statement beyond "some month of the range"
            if s <= e {
                vpost!("C01.month.filter_with_year_is_that_year_and_month_in_range", got == (in_months && d.year() == y as i32));
            } else {
                vpost!("C01.month.filter_with_year_wrapping_implies_month_in_range", !got || in_months);
            }
        }
    }
    vcover!("month_filter.wrapping_hit", s > e && got);
    vcover!("month_filter.year_mismatch", year.is_some() && !got && in_months);
}

//@H props=C01,C04 tier=quick kind=complete cap=300 domain="all 12 months"
#[cfg_attr(kani, kani::proof)]
#[cfg_attr(verif_replay, test)]
fn month_next_prev_cyclic() {
    let m = any_month();
    vpost!("C01.month.next_is_cyclic_successor", m.next() as u8 == (m as u8) % 12 + 1);
    vpost!("C01.month.prev_is_cyclic_predecessor", m.prev() as u8 == (m as u8 + 10) % 12 + 1);
    vpost!("C01.month.next_prev_inverse", m.next().prev() == m && m.prev().next() == m);
    vpost!("C01.month.from_date_is_calendar_month", {
        let d = any_date();
        Month::from_date(d) as u32 == d.month()
    });
    vcover!("month_next.december", m == Month::December);
}

//@H props=C02,C08,C04 tier=quick kind=complete cap=1200 domain="year-less month ranges: all (start, end) x all dates x all intermediate dates"
#[cfg_attr(kani, kani::proof)]
#[cfg_attr(verif_replay, test)]
fn month_hint_no_year() {
    let (s, e) = (any_month(), any_month());
    let r = ds::MonthdayRange::Month { range: s..=e, year: None };
    let d = any_date();
    let between = any_date();
    let c = ctx();
    let hint = r.next_change_hint(d, &c);
    if let Some(h) = hint {
        vpost!(
            "C02.month.hint_no_change_before_hint",
            h > d && !(d < between && between < h && r.filter(between, &c) != r.filter(d, &c))
        );
        vpost!("C08.month.hint_within_supported_range_or_dropped", h <= date_end() || h.year() == 10000);
    }
    vcover!("month_hint.inside", hint.is_some() && r.filter(d, &c));
    vcover!("month_hint.outside", hint.is_some() && !r.filter(d, &c));
    vcover!("month_hint.whole_year", hint == Some(date_end()));
}

fn month_hint_with_year_body(wrapping: bool) {
    let (s, e) = (any_month(), any_month());
    let y = nd::u16();
    nd::assume(1900 <= y && y <= 9999);
    nd::assume(wrapping == (s > e));
    let r = ds::MonthdayRange::Month { range: s..=e, year: Some(y) };
    let d = any_date();
    let between = any_date();
    let c = ctx();
    let hint = r.next_change_hint(d, &c);
    if let Some(h) = hint {
        vpost!(
            "C02.month_with_year.hint_no_change_before_hint",
            h > d && !(d < between && between < h && r.filter(between, &c) != r.filter(d, &c))
        );
        vpost!("C08.month_with_year.hint_within_supported_range", h <= date_end());
    }
    vcover!("month_hint_year.inside", hint.is_some() && r.filter(d, &c));
    vcover!("month_hint_year.before", hint.is_some() && !r.filter(d, &c) && d.year() < y as i32);
    vcover!("month_hint_year.december", e == Month::December || wrapping);
}

//@H props=C02,C08,C04 tier=quick kind=complete cap=1200 domain="month ranges with a year, start <= end: all (start, end, year) x all dates x all intermediate dates"
#[cfg_attr(kani, kani::proof)]
#[cfg_attr(kani, kani::unwind(4))]
#[cfg_attr(verif_replay, test)]
fn month_hint_with_year() {
    month_hint_with_year_body(false)
}

//@H props=C02 tier=quick kind=complete cap=1200 finding=KF-C02-month-year-wrapping domain="month ranges with a year, start > end"
#[cfg_attr(kani, kani::proof)]
#[cfg_attr(kani, kani::unwind(4))]
#[cfg_attr(verif_replay, test)]
fn month_hint_with_year_wrapping_known_finding() {
    month_hint_with_year_body(true)
}

// ---- leaf date kernels -----------------------------------------------------------------------------------

fn is_leap(y: i32) -> bool {
    (y % 4 == 0 && y % 100 != 0) || y % 400 == 0
}

pub(crate) fn days_in_month(y: i32, m: u32) -> u32 {
    match m {
        4 | 6 | 9 | 11 => 30,
        2 => if is_leap(y) { 29 } else { 28 },
        _ => 31,
    }
}

//@H props=C01,C04 tier=quick kind=complete cap=900 domain="all dates 1900..9999"
#[cfg_attr(kani, kani::proof)]
#[cfg_attr(verif_replay, test)]
fn count_days_in_month_spec() {
    let d = any_date();
    let got = count_days_in_month(d);
    vpost!("C01.count_days_in_month.is_gregorian_month_length", got as u32 == days_in_month(d.year(), d.month()));
    vcover!("count_days.feb_leap_century", d.year() % 400 == 0 && d.month() == 2);
    vcover!("count_days.feb_nonleap_century", d.year() % 100 == 0 && d.year() % 400 != 0 && d.month() == 2);
    vcover!("count_days.december_9999", d.year() == 9999 && d.month() == 12);
}

/// Easter Sunday by Lichtenberg's form of the Gauss algorithm: (month, day).  Independent of the
/// Meeus/Jones/Butcher expression sequence used by the code.
fn easter_gauss(y: i32) -> (u32, u32) {
    let k = y / 100;
    let m = 15 + (3 * k + 3) / 4 - (8 * k + 13) / 25;
    let s = 2 - (3 * k + 3) / 4;
    let a = y % 19;
    let d = (19 * a + m) % 30;
    let r = (d + a / 11) / 29;
    let og = 21 + d - r;
    let sz = 7 - (y + y / 4 + s) % 7;
    let oe = 7 - (og - sz) % 7;
    let os = og + oe;
    if os > 31 { (4, (os - 31) as u32) } else { (3, os as u32) }
}

//@H props=C01,C04 tier=quick kind=complete cap=1500 domain="all years 1900..=10010 against an independent computus; every i32 year for absence of panic"
#[cfg_attr(kani, kani::proof)]
#[cfg_attr(verif_replay, test)]
fn easter_spec() {
    let y = nd::i32();
    let any_year = nd::i32();
    let _ = easter(any_year); // no overflow / expect panic for any i32
    nd::assume(1899 <= y && y <= 10010);
    let got = easter(y);
    let (m, d) = easter_gauss(y);
    vpost!("C01.easter.equals_independent_computus", got == NaiveDate::from_ymd_opt(y, m, d) && got.is_some());
    if let Some(e) = got {
        vpost!("C01.easter.is_a_sunday_between_mar22_and_apr25", e.weekday() == Weekday::Sun
            && e >= NaiveDate::from_ymd_opt(y, 3, 22).unwrap() && e <= NaiveDate::from_ymd_opt(y, 4, 25).unwrap());
    }
    vcover!("easter.april", m == 4);
    vcover!("easter.march", m == 3);
}

//@H props=C01,C02,C04,C08 tier=quick kind=complete cap=1500 domain="years 1899..=10010, all months, days 1..=31"
#[cfg_attr(kani, kani::proof)]
#[cfg_attr(kani, kani::unwind(6))]
#[cfg_attr(verif_replay, test)]
fn valid_ymd_clamps() {
    let (y, m, day) = (nd::i32(), nd::u32(), nd::u32());
    nd::assume(1899 <= y && y <= 10010 && 1 <= m && m <= 12 && 1 <= day && day <= 31);
    let dim = days_in_month(y, m);
    let before = valid_ymd_before(y, m, day);
    let after = valid_ymd_after(y, m, day);
    let last = NaiveDate::from_ymd_opt(y, m, dim).unwrap();
    if day <= dim {
        let exact = NaiveDate::from_ymd_opt(y, m, day).unwrap();
        vpost!("C01.valid_ymd.existing_day_is_itself", before == exact && after == exact);
    } else {
        vpost!("C01.valid_ymd_before.missing_day_clamps_to_last_day_of_month", before == last);
        vpost!("C01.valid_ymd_after.missing_day_clamps_to_first_day_after_month", after == last.succ_opt().unwrap());
    }
    vcover!("valid_ymd.feb30_leap", m == 2 && day == 30 && dim == 29);
    vcover!("valid_ymd.apr31", m == 4 && day == 31);
}

// ---- WeekDayRange::Fixed --------------------------------------------------------------------------------------

fn any_weekday() -> Weekday {
    let w = nd::u8();
    nd::assume(w < 7);
    Weekday::try_from(w).unwrap()
}

/// offsets for which `date - offset` stays representable for every supported date (chrono covers +-262 143 years)
const MAX_DAY_OFFSET: i64 = 90_000_000;

/// `half`: 0 = every date, 1 = days 1..=183 of the year, 2 = days 184..=366
fn weekday_fixed_body(offset: i64, half: u8) {
    let (s, e) = (any_weekday(), any_weekday());
    let nth_from_start = [nd::bool(), nd::bool(), nd::bool(), nd::bool(), nd::bool()];
    let nth_from_end = [nd::bool(), nd::bool(), nd::bool(), nd::bool(), nd::bool()];
    let r = ds::WeekDayRange::Fixed { range: s..=e, offset, nth_from_start, nth_from_end };
    let d = any_date();
    nd::assume(half == 0 || (d.ordinal() <= 183) == (half == 1));
    let got = r.filter(d, &ctx());
    // spec: the day `offset` days earlier is a weekday of the (wrapping) range and sits at a selected
    // position of its month, counted from the start or from the end
    let dd = d - Duration::days(offset);
    let wd = dd.weekday().num_days_from_monday();
    let k_start = ((dd.day() - 1) / 7) as usize;
    let k_end = ((days_in_month(dd.year(), dd.month()) - dd.day()) / 7) as usize;
    let spec = in_wrapping(s.num_days_from_monday(), e.num_days_from_monday(), wd)
        && (nth_from_start[k_start] || nth_from_end[k_end]);
    vpost!("C01.weekday.filter_is_weekday_in_range_at_selected_nth_position", got == spec);
    vpost!("C02.weekday.fixed_has_no_hint", { let h = r.next_change_hint(d, &ctx()); h.is_none() || h == d.succ_opt() });
    vcover!("weekday.wrapping_hit", s.num_days_from_monday() > e.num_days_from_monday() && got);
    vcover!("weekday.fifth_from_start", got && k_start == 4 && !nth_from_end[k_end]);
    vcover!("weekday.last_of_month", got && k_end == 0 && !nth_from_start[k_start]);
    vcover!("weekday.miss_by_position", !got && in_wrapping(s.num_days_from_monday(), e.num_days_from_monday(), wd));
}

//@H props=C02,C04 tier=quick kind=complete cap=600 domain="all weekday ranges x all nth masks x any day offset x all dates 1900..9999"
#[cfg_attr(kani, kani::proof)]
#[cfg_attr(kani, kani::unwind(3))]
#[cfg_attr(verif_replay, test)]
fn weekday_fixed_has_no_hint() {
    let (s, e) = (any_weekday(), any_weekday());
    let nth_from_start = [nd::bool(), nd::bool(), nd::bool(), nd::bool(), nd::bool()];
    let nth_from_end = [nd::bool(), nd::bool(), nd::bool(), nd::bool(), nd::bool()];
    let r = ds::WeekDayRange::Fixed { range: s..=e, offset: nd::i64(), nth_from_start, nth_from_end };
    let d = any_date();
    // a weekday selector may change from one day to the next: it must not let the iterator skip any day
    // (no hint, or the very next day)
    vpost!("C02.weekday.fixed_has_no_hint", { let h = r.next_change_hint(d, &ctx()); h.is_none() || h == d.succ_opt() });
    vcover!("weekday_no_hint.reachable", true);
}

//@H props=C01,C04 tier=quick kind=complete cap=1500 domain="offset 0: all weekday ranges x all nth masks x days 1..=183 of every year 1900..9999"
#[cfg_attr(kani, kani::proof)]
#[cfg_attr(kani, kani::unwind(3))]
#[cfg_attr(verif_replay, test)]
fn weekday_fixed_filter_no_offset_first_half_year() {
    weekday_fixed_body(0, 1)
}

//@H props=C01,C04 tier=quick kind=complete cap=1500 domain="offset 0: all weekday ranges x all nth masks x days 184..=366 of every year 1900..9999"
#[cfg_attr(kani, kani::proof)]
#[cfg_attr(kani, kani::unwind(3))]
#[cfg_attr(verif_replay, test)]
fn weekday_fixed_filter_no_offset_second_half_year() {
    weekday_fixed_body(0, 2)
}

//@H props=C01,C04 tier=thorough kind=bounded cap=1500 mem=medium bound="|day offset| <= 2" domain="all weekday ranges x all nth masks x all dates 1900..9999"
#[cfg_attr(kani, kani::proof)]
#[cfg_attr(kani, kani::unwind(3))]
#[cfg_attr(verif_replay, test)]
fn weekday_fixed_filter_with_offset() {
    let offset = nd::i64();
    nd::assume(-2 <= offset && offset <= 2);
    weekday_fixed_body(offset, 0)
}

//@H props=C04 tier=quick kind=complete cap=900 finding=KF-C04-huge-day-offset domain="|day offset| > 90 000 000"
#[cfg_attr(kani, kani::proof)]
#[cfg_attr(kani, kani::unwind(3))]
#[cfg_attr(verif_replay, test)]
fn weekday_fixed_filter_huge_offset_known_finding() {
    let offset = nd::i64();
    nd::assume(offset < -MAX_DAY_OFFSET || offset > MAX_DAY_OFFSET);
    let r = ds::WeekDayRange::Fixed { range: Weekday::Mon..=Weekday::Mon, offset, nth_from_start: [true; 5], nth_from_end: [true; 5] };
    let d = any_date();
    let _ = r.filter(d, &ctx());
    vpost!("C04.weekday.filter_returns_for_every_offset", true);
}

// ---- WeekDayRange::Holiday -------------------------------------------------------------------------------------
//
// The calendars are abstract here: `CompactCalendar::{contains, first_after}` are replaced by *contract
// models* over a harness-owned table of two symbolic holidays per calendar - `contains(d)` is membership
// and `first_after(d)` the least member strictly after `d`, i.e. exactly the contracts proved for the real
// calendar under C15.  Which table answers is decided by the identity of the calendar object, so reading the
// wrong calendar of the context is detected.

static mut CAL_PUBLIC: *const compact_calendar::CompactCalendar = core::ptr::null();
static mut TABLE_PUBLIC: [Option<NaiveDate>; 2] = [None, None];
static mut TABLE_SCHOOL: [Option<NaiveDate>; 2] = [None, None];

fn table_of(c: &compact_calendar::CompactCalendar) -> [Option<NaiveDate>; 2] {
    unsafe {
        if core::ptr::eq(c, CAL_PUBLIC) { TABLE_PUBLIC } else { TABLE_SCHOOL }
    }
}

pub(crate) fn calendar_contains_model(c: &compact_calendar::CompactCalendar, d: NaiveDate) -> bool {
    let t = table_of(c);
    t[0] == Some(d) || t[1] == Some(d)
}

pub(crate) fn calendar_first_after_model(c: &compact_calendar::CompactCalendar, d: NaiveDate) -> Option<NaiveDate> {
    let t = table_of(c);
    let a = t[0].filter(|x| *x > d);
    let b = t[1].filter(|x| *x > d);
    match (a, b) {
        (Some(x), Some(y)) => Some(if x < y { x } else { y }),
        (x, y) => x.or(y),
    }
}

fn any_opt_date() -> Option<NaiveDate> {
    let d = any_date();
    if nd::bool() { Some(d) } else { None }
}

fn holiday_ctx_n(two: bool) -> Context {
    let c = Context::default()
        .with_holidays(crate::context::ContextHolidays::new(Default::default(), Default::default()));
    unsafe {
        CAL_PUBLIC = c.holidays.get_public() as *const _;
        TABLE_PUBLIC = [any_opt_date(), if two { any_opt_date() } else { None }];
        TABLE_SCHOOL = [any_opt_date(), if two { any_opt_date() } else { None }];
    }
    c
}

fn holiday_ctx() -> Context {
    holiday_ctx_n(true)
}

fn any_holiday_kind() -> HolidayKind {
    if nd::bool() { HolidayKind::Public } else { HolidayKind::School }
}

fn in_table(t: [Option<NaiveDate>; 2], d: NaiveDate) -> bool {
    t[0] == Some(d) || t[1] == Some(d)
}

//@H props=C01,C04 tier=quick kind=bounded cap=1500 bound="|day offset| <= 400; calendars abstracted by 2 symbolic holidays each" domain="both kinds x all dates 1900..9999"
#[cfg_attr(kani, kani::proof)]
#[cfg_attr(kani, kani::unwind(3))]
#[cfg_attr(kani, kani::stub(compact_calendar::CompactCalendar::contains, calendar_contains_model))]
#[cfg_attr(kani, kani::stub(compact_calendar::CompactCalendar::first_after, calendar_first_after_model))]
#[cfg_attr(verif_replay, test)]
fn holiday_filter() {
    let c = holiday_ctx();
    let kind = any_holiday_kind();
    let offset = nd::i64();
    nd::assume(-400 <= offset && offset <= 400);
    let r = ds::WeekDayRange::Holiday { kind, offset };
    let d = any_date();
    let got = r.filter(d, &c);
    let table = unsafe { if kind == HolidayKind::Public { TABLE_PUBLIC } else { TABLE_SCHOOL } };
    vpost!(
        "C01.holiday.filter_is_membership_of_the_shifted_day_in_the_calendar_of_that_kind",
        got == in_table(table, d - Duration::days(offset))
    );
    vcover!("holiday_filter.hit_with_offset", got && offset != 0);
    vcover!("holiday_filter.other_calendar_has_it", !got && unsafe { in_table(if kind == HolidayKind::Public { TABLE_SCHOOL } else { TABLE_PUBLIC }, d - Duration::days(offset)) });
}

fn holiday_hint_body(two: bool, fixed_offset: Option<i64>) {
    let c = holiday_ctx_n(two);
    let kind = any_holiday_kind();
    let offset = match fixed_offset {
        Some(o) => o,
        None => nd::i64(),
    };
    nd::assume(-1 <= offset && offset <= 1);
    let r = ds::WeekDayRange::Holiday { kind, offset };
    let d = any_date();
    let between = any_date();
    let hint = r.next_change_hint(d, &c);
    if let Some(h) = hint {
        vpost!("C02.holiday.hint_is_after_the_date", h > d);
        vpost!(
            "C02.holiday.hint_no_change_before_hint",
            !(d < between && between < h && r.filter(between, &c) != r.filter(d, &c))
        );
        vpost!("C08.holiday.hint_within_supported_range_or_offset_beyond", h <= date_end() + Duration::days(1));
    }
    // a missing hint is always sound (the iterator then advances day by day): reachability only
    vcover!("holiday.cover_hint_exists_inside_supported_range", hint.is_some());
    vcover!("holiday_hint.on_holiday", r.filter(d, &c));
    vcover!("holiday_hint.eve_of_holiday", matches!(hint, Some(h) if h == d.succ_opt().unwrap() && !r.filter(d, &c)));
    vcover!("holiday_hint.no_more_holidays", hint == Some(date_end()));
    vcover!("holiday_hint.positive_offset_next", offset <= 0 || (matches!(hint, Some(h) if h > d + Duration::days(2)) && hint != Some(date_end())));
    vcover!("holiday_hint.negative_offset", offset >= 0 || r.filter(d, &c));
}

//@H props=C02,C08,C04 tier=quick kind=bounded cap=1800 bound="day offset -1; calendars abstracted by 1 symbolic holiday each" domain="both kinds x all dates x all intermediate dates"
#[cfg_attr(kani, kani::proof)]
#[cfg_attr(kani, kani::unwind(3))]
#[cfg_attr(kani, kani::stub(compact_calendar::CompactCalendar::contains, calendar_contains_model))]
#[cfg_attr(kani, kani::stub(compact_calendar::CompactCalendar::first_after, calendar_first_after_model))]
#[cfg_attr(verif_replay, test)]
fn holiday_hint_1_minus_1_day() {
    holiday_hint_body(false, Some(-1))
}

//@H props=C02,C08,C04 tier=quick kind=bounded cap=1800 bound="day offset 0; calendars abstracted by 1 symbolic holiday each" domain="both kinds x all dates x all intermediate dates"
#[cfg_attr(kani, kani::proof)]
#[cfg_attr(kani, kani::unwind(3))]
#[cfg_attr(kani, kani::stub(compact_calendar::CompactCalendar::contains, calendar_contains_model))]
#[cfg_attr(kani, kani::stub(compact_calendar::CompactCalendar::first_after, calendar_first_after_model))]
#[cfg_attr(verif_replay, test)]
fn holiday_hint_1_no_offset() {
    holiday_hint_body(false, Some(0))
}

//@H props=C02,C08,C04 tier=quick kind=bounded cap=1800 bound="day offset 1; calendars abstracted by 1 symbolic holiday each" domain="both kinds x all dates x all intermediate dates"
#[cfg_attr(kani, kani::proof)]
#[cfg_attr(kani, kani::unwind(3))]
#[cfg_attr(kani, kani::stub(compact_calendar::CompactCalendar::contains, calendar_contains_model))]
#[cfg_attr(kani, kani::stub(compact_calendar::CompactCalendar::first_after, calendar_first_after_model))]
#[cfg_attr(verif_replay, test)]
fn holiday_hint_1_plus_1_day() {
    holiday_hint_body(false, Some(1))
}

//@H props=C02,C08,C04 tier=thorough kind=bounded cap=2400 bound="|day offset| <= 1; calendars abstracted by 2 symbolic holidays each" domain="both kinds x all dates x all intermediate dates"
#[cfg_attr(kani, kani::proof)]
#[cfg_attr(kani, kani::unwind(3))]
#[cfg_attr(kani, kani::stub(compact_calendar::CompactCalendar::contains, calendar_contains_model))]
#[cfg_attr(kani, kani::stub(compact_calendar::CompactCalendar::first_after, calendar_first_after_model))]
#[cfg_attr(verif_replay, test)]
fn holiday_hint_2() {
    holiday_hint_body(true, None)
}

// ---- lists of selectors and the DaySelector conjunction -------------------------------------------------------------

//@H props=C01,C02,C04 tier=quick kind=bounded cap=1500 bound="lists of 0, 1 and 2 year ranges (step 1)" domain="all range bounds x all dates"
#[cfg_attr(kani, kani::proof)]
#[cfg_attr(kani, kani::unwind(4))]
#[cfg_attr(verif_replay, test)]
fn selector_list_is_disjunction() {
    let (a, b) = (any_year_range(), any_year_range());
    nd::assume(a.step == 1 && b.step == 1);
    let d = any_date();
    let c = ctx();
    let (fa, fb) = (a.filter(d, &c), b.filter(d, &c));
    let (ha, hb) = (a.next_change_hint(d, &c), b.next_change_hint(d, &c));
    let empty: [YearRange; 0] = [];
    let one = [a.clone()];
    let two = [a, b];
    vpost!("C01.selector_list.empty_list_matches_every_day", empty.filter(d, &c));
    vpost!("C01.selector_list.one_element_is_that_element", one.filter(d, &c) == fa);
    vpost!("C01.selector_list.is_disjunction_of_its_elements", two.filter(d, &c) == (fa || fb));
    vpost!("C02.selector_list.empty_list_never_changes", empty.next_change_hint(d, &c) == Some(date_end()));
    // min over Option<NaiveDate>: None (no hint) is the smallest, i.e. one missing hint makes the list's hint missing
    let expect = match (ha, hb) {
        (Some(x), Some(y)) => Some(if x < y { x } else { y }),
        _ => None,
    };
    vpost!("C02.selector_list.hint_is_the_earliest_element_hint_none_if_any_is_none", two.next_change_hint(d, &c) == expect);
    vcover!("selector_list.only_second_matches", !fa && fb);
    vcover!("selector_list.one_hint_missing", ha.is_none() != hb.is_none());
}

fn day_selector_body<const UY: bool, const UM: bool, const UW: bool, const UWD: bool>() {
    let y = any_year_range();
    nd::assume(y.step == 1);
    let m = ds::MonthdayRange::Month { range: any_month()..=any_month(), year: None };
    let w = any_week_range();
    nd::assume(w.step == 1);
    let wd = ds::WeekDayRange::Fixed { range: any_weekday()..=any_weekday(), offset: 0, nth_from_start: [true; 5], nth_from_end: [true; 5] };
    let d = any_date();
    let c = ctx();
    let (fy, fm, fw, fwd) = (y.filter(d, &c), m.filter(d, &c), w.filter(d, &c), !UWD || wd.filter(d, &c));
    let (hy, hm) = (y.next_change_hint(d, &c), m.next_change_hint(d, &c));
    let expect = (!UY || fy) && (!UM || fm) && (!UW || fw) && (!UWD || fwd);
    let sel = ds::DaySelector {
        year: if UY { vec![y] } else { vec![] },
        monthday: if UM { vec![m] } else { vec![] },
        week: if UW { vec![w] } else { vec![] },
        weekday: if UWD { vec![wd] } else { vec![] },
    };
    vpost!("C01.day_selector.rule_applies_iff_all_its_selector_dimensions_match", sel.filter(d, &c) == expect);
    vpost!("C01.day_selector.is_empty_iff_no_dimension_given", sel.is_empty() == (!UY && !UM && !UW && !UWD));
    if !UW && !UWD {
        let hy = if UY { hy } else { Some(date_end()) };
        let hm = if UM { hm } else { Some(date_end()) };
        let expect_hint = match (hy, hm) {
            (Some(a), Some(b)) => Some(if a < b { a } else { b }),
            _ => None,
        };
        vpost!("C02.day_selector.hint_is_the_earliest_dimension_hint_none_if_any_is_none", sel.next_change_hint(d, &c) == expect_hint);
    }
    vcover!("day_selector.matches", expect);
    vcover!("day_selector.one_dimension_fails", !(UY && UM) || (!expect && (fy != fm)));
    core::mem::forget(sel);
}

//@H props=C01,C02,C08,C04 tier=deep kind=bounded cap=3000 mem=medium bound="day selector with one year range (step 1) and one year-less month range" domain="all fields x all dates"
#[cfg_attr(kani, kani::proof)]
#[cfg_attr(kani, kani::unwind(4))]
#[cfg_attr(verif_replay, test)]
fn day_selector_year_and_month() {
    day_selector_body::<true, true, false, false>()
}

//@H props=C01,C04 tier=deep kind=bounded cap=3000 mem=medium bound="day selector with one selector in each of the four dimensions" domain="all fields x all dates"
#[cfg_attr(kani, kani::proof)]
#[cfg_attr(kani, kani::unwind(4))]
#[cfg_attr(verif_replay, test)]
fn day_selector_all_four_dimensions() {
    day_selector_body::<true, true, true, true>()
}

//@H props=C01,C02,C04 tier=quick kind=bounded cap=900 mem=medium bound="the empty day selector" domain="all dates"
#[cfg_attr(kani, kani::proof)]
#[cfg_attr(kani, kani::unwind(4))]
#[cfg_attr(verif_replay, test)]
fn day_selector_empty() {
    day_selector_body::<false, false, false, false>()
}

//@H props=ENGINE tier=quick kind=canary cap=300 expect=fail
#[cfg_attr(kani, kani::proof)]
#[cfg_attr(verif_replay, test)]
fn canary_date_filter_must_fail() {
    let d = any_date();
    vpost!("CANARY.date_filter.must_fail", d.year() != 2024 || d.ordinal() != 60);
}
