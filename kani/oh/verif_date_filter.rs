//! C01 (selector semantics), C02 (next_change_hint lower bounds), C04 (no panic in the selector code),
//! C08 (hints never leave the supported range): contracts in assert form and harnesses for
//! `opening-hours/src/filter/date_filter.rs`.  Child module of `filter::date_filter` (overlaid).
//!
//! Each selector's `filter` gets the postcondition `filter(node, date) == spec(node, date)` where the spec
//! is a short arithmetic predicate over (year, month, day, ISO week, weekday) written from the property
//! statement / OSM semantics - for every node satisfying the AST invariant `valid_*` (read off grammar.pest and
//! the build_* functions; the parser itself is not verified, see C05) and every date 1900-01-01..9999-12-31.
//! Each `next_change_hint` gets the contract
//!     Some(h)  ==>  h > d  &&  h <= 10000-01-01  &&  forall d' in (d, h): filter(d') == filter(d)
//! with `d'` one extra symbolic date - soundness of a skip is a statement about every skipped day.
use super::*;
use chrono::NaiveDate;
use opening_hours_syntax::rules::day::{HolidayKind, WeekNum, WeekRange, Year, YearRange};
use opening_hours_syntax::verif_nd as nd;
use opening_hours_syntax::{vcover, vpost};

pub(crate) fn date_start() -> NaiveDate {
    DATE_START.date()
}

pub(crate) fn date_end() -> NaiveDate {
    DATE_END.date()
}

/// any date of the supported range 1900-01-01 ..= 9999-12-31
pub(crate) fn any_date() -> NaiveDate {
    let y = nd::i32();
    let o = nd::u32();
    nd::assume(1900 <= y && y <= 9999 && 1 <= o && o <= 366);
    let d = NaiveDate::from_yo_opt(y, o);
    nd::assume(d.is_some());
    d.unwrap()
}

fn ctx() -> Context {
    Context::default()
}

fn in_wrapping<T: PartialOrd>(s: T, e: T, x: T) -> bool {
    if s <= e { s <= x && x <= e } else { x >= s || x <= e }
}

/// the contract of every `next_change_hint`, for one symbolic intermediate date
fn hint_ok(d: NaiveDate, h: NaiveDate, between: NaiveDate, f_d: bool, f_between: bool) -> bool {
    h > d && h <= date_end() && !(d < between && between < h && f_between != f_d)
}

// ---- WrappingRange ---------------------------------------------------------------------------------

//@H props=C01,C04 tier=quick kind=complete cap=300 domain="all u8 / u16 triples"
#[cfg_attr(kani, kani::proof)]
#[cfg_attr(verif_replay, test)]
fn wrapping_contains_spec() {
    let (s, e, x) = (nd::u8(), nd::u8(), nd::u8());
    vpost!("C01.wrapping_range.u8_contains_iff_between_or_wrapped", (s..=e).wrapping_contains(&x) == in_wrapping(s, e, x));
    let (s, e, x) = (nd::u16(), nd::u16(), nd::u16());
    vpost!("C01.wrapping_range.u16_contains_iff_between_or_wrapped", (s..=e).wrapping_contains(&x) == in_wrapping(s, e, x));
    vcover!("wrapping.wrapped_hit", s > e && x <= e);
}

// ---- YearRange -----------------------------------------------------------------------------------------

fn any_year_range() -> YearRange {
    let (s, e, step) = (nd::u16(), nd::u16(), nd::u16());
    // AST invariant (grammar: year = 19xx..9999 four digits >= 1900; build_year_range rejects step 0)
    nd::assume(1900 <= s && s <= 9999 && 1900 <= e && e <= 9999 && step >= 1);
    YearRange { range: Year(s)..=Year(e), step }
}

fn year_spec(r: &YearRange, date: NaiveDate) -> Option<bool> {
    let (s, e) = (r.range.start().0 as i32, r.range.end().0 as i32);
    let y = date.year();
    if s <= e {
        Some(s <= y && y <= e && (y - s) % (r.step as i32) == 0)
    } else if r.step == 1 {
        Some(y >= s || y <= e)
    } else {
        // a wrapping year range with a step is not defined by the statement: only "outside the range => false"
        if y >= s || y <= e { None } else { Some(false) }
    }
}

//@H props=C01,C04 tier=quick kind=complete cap=600 domain="all (start, end, step) x all dates 1900..9999"
#[cfg_attr(kani, kani::proof)]
#[cfg_attr(verif_replay, test)]
fn year_filter() {
    let r = any_year_range();
    let d = any_date();
    let got = r.filter(d, &ctx());
    let spec = year_spec(&r, d);
    vpost!("C01.year.filter_is_range_and_step", spec.map_or(true, |s| s == got));
    vcover!("year_filter.step_hit", got && r.step > 1 && d.year() > r.range.start().0 as i32);
    vcover!("year_filter.step_miss", !got && r.step > 1 && d.year() > r.range.start().0 as i32 && d.year() < r.range.end().0 as i32);
    vcover!("year_filter.wrapping", r.range.start() > r.range.end() && got);
}

fn year_hint_body(r: YearRange) {
    let d = any_date();
    let between = any_date();
    let c = ctx();
    let hint = r.next_change_hint(d, &c);
    if let Some(h) = hint {
        vpost!(
            "C02.year.hint_no_change_before_hint",
            hint_ok(d, h, between, r.filter(d, &c), r.filter(between, &c))
        );
        vpost!("C08.year.hint_within_supported_range", h <= date_end());
    }
    vcover!("year_hint.some", hint.is_some());
    vcover!("year_hint.before_range", hint.is_some() && d.year() < r.range.start().0 as i32);
    vcover!("year_hint.after_range", hint == Some(date_end()));
}

//@H props=C02,C08,C04 tier=quick kind=complete cap=900 domain="step = 1: all (start, end) x all dates x all intermediate dates"
#[cfg_attr(kani, kani::proof)]
#[cfg_attr(verif_replay, test)]
fn year_hint_step1() {
    let r = any_year_range();
    nd::assume(r.step == 1);
    year_hint_body(r);
}

//@H props=C02,C08,C04 tier=thorough kind=bounded cap=3000 mem=medium bound="2 <= step <= 4" domain="all (start, end) x all dates x all intermediate dates"
#[cfg_attr(kani, kani::proof)]
#[cfg_attr(verif_replay, test)]
fn year_hint_step_2_to_4() {
    let r = any_year_range();
    nd::assume(2 <= r.step && r.step <= 4);
    year_hint_body(r);
}

// ---- WeekRange -------------------------------------------------------------------------------------------

fn any_week_range() -> WeekRange {
    let (s, e, step) = (nd::u8(), nd::u8(), nd::u8());
    // AST invariant (grammar: weeknum 01..53; build_week rejects step 0)
    nd::assume(1 <= s && s <= 53 && 1 <= e && e <= 53 && step >= 1);
    WeekRange { range: WeekNum(s)..=WeekNum(e), step }
}

fn week_spec(r: &WeekRange, date: NaiveDate) -> Option<bool> {
    let (s, e) = (r.range.start().0 as u32, r.range.end().0 as u32);
    let w = date.iso_week().week();
    if s <= e {
        Some(s <= w && w <= e && (w - s) % (r.step as u32) == 0)
    } else if r.step == 1 {
        Some(w >= s || w <= e)
    } else {
        if w >= s || w <= e { None } else { Some(false) }
    }
}

//@H props=C01,C04 tier=quick kind=complete cap=600 domain="all (start, end, step) x all dates 1900..9999"
#[cfg_attr(kani, kani::proof)]
#[cfg_attr(verif_replay, test)]
fn week_filter() {
    let r = any_week_range();
    let d = any_date();
    let got = r.filter(d, &ctx());
    let spec = week_spec(&r, d);
    vpost!("C01.week.filter_is_iso_week_in_range_and_step", spec.map_or(true, |s| s == got));
    vcover!("week_filter.week53", got && d.iso_week().week() == 53);
    vcover!("week_filter.step_miss", !got && r.step > 1 && in_wrapping(r.range.start().0, r.range.end().0, d.iso_week().week() as u8));
    vcover!("week_filter.wrapping", r.range.start() > r.range.end() && got);
    vcover!("week_filter.week1_in_december", got && d.iso_week().week() == 1 && d.month() == 12);
}

//@H props=C02,C08,C04 tier=quick kind=complete cap=1500 domain="all (start, end, step) x all dates x all intermediate dates; loop closed by the ISO-year step (unwinding assertion on)"
#[cfg_attr(kani, kani::proof)]
#[cfg_attr(kani, kani::unwind(4))]
#[cfg_attr(verif_replay, test)]
fn week_hint() {
    let r = any_week_range();
    let d = any_date();
    let between = any_date();
    let c = ctx();
    let hint = r.next_change_hint(d, &c);
    if let Some(h) = hint {
        vpost!(
            "C02.week.hint_no_change_before_hint",
            h > d && !(d < between && between < h && r.filter(between, &c) != r.filter(d, &c))
        );
        vpost!("C08.week.hint_within_supported_range_or_dropped", h <= date_end() || h.year() == 10000);
    }
    vcover!("week_hint.some_in_range", hint.is_some() && r.filter(d, &c));
    vcover!("week_hint.some_out_of_range", hint.is_some() && !r.filter(d, &c));
    vcover!("week_hint.next_iso_year", matches!(hint, Some(h) if h.year() > d.year()));
}

//@H props=ENGINE tier=quick kind=canary cap=300 expect=fail
#[cfg_attr(kani, kani::proof)]
#[cfg_attr(verif_replay, test)]
fn canary_date_filter_must_fail() {
    let d = any_date();
    vpost!("CANARY.date_filter.must_fail", d.year() != 2024 || d.ordinal() != 60);
}
