//! C10, sentence "The set of countries, their ISO codes and the code parser are mutually consistent (parsing a country's
//! code gives that country, anything else is rejected)": contracts in assert form for the generated `Country::iso_code`,
//! `Country::from_str` and `Country::ALL`, over every country (symbolic index) and every string of 0..=3 ASCII bytes.
//! Child module of `localization::country` (overlaid).  Nothing is claimed about the embedded calendars.
use super::*;
use opening_hours_syntax::verif_nd as nd;
use opening_hours_syntax::{vcover, vpost};
use std::str::FromStr;

fn any_country() -> Country {
    let i = nd::u8() as usize;
    nd::assume(i < Country::ALL.len());
    Country::ALL[i]
}

//@H props=C10 tier=quick kind=complete cap=900 domain="every country of Country::ALL (symbolic index) x every other country"
#[cfg_attr(kani, kani::proof)]
#[cfg_attr(kani, kani::unwind(4))]
#[cfg_attr(verif_replay, test)]
fn country_code_roundtrip() {
    let (i, j) = (nd::u8() as usize, nd::u8() as usize);
    nd::assume(i < Country::ALL.len() && j < Country::ALL.len());
    let (c, other) = (Country::ALL[i], Country::ALL[j]);
    let code = c.iso_code();
    vpost!("C10.country.iso_code_has_two_ascii_uppercase_letters", code.len() == 2 && code.as_bytes()[0].is_ascii_uppercase() && code.as_bytes()[1].is_ascii_uppercase());
    vpost!("C10.country.parsing_a_countrys_code_gives_that_country", Country::from_str(code) == Ok(c));
    vpost!("C10.country.all_lists_each_country_once_and_codes_are_distinct", (i == j) == (c == other) && (i == j) == (code == other.iso_code()));
    vcover!("country.last_of_all", i == Country::ALL.len() - 1);
}

fn any_ascii_string<const N: usize>() -> [u8; N] {
    let mut bytes = [0u8; N];
    let mut k = 0;
    while k < N {
        bytes[k] = nd::u8();
        nd::assume(bytes[k] < 128);
        k += 1;
    }
    bytes
}

fn parse_two_bytes_body() {
    let bytes = any_ascii_string::<2>();
    let s = core::str::from_utf8(&bytes).unwrap();
    let c = any_country();
    match Country::from_str(s) {
        Ok(parsed) => {
            vpost!("C10.country.a_parsed_string_is_the_code_of_the_country_returned", parsed.iso_code() == s);
        }
        Err(_) => {
            vpost!("C10.country.a_rejected_string_is_no_countrys_code", c.iso_code() != s);
        }
    }
    vcover!("country.parse.accepted", Country::from_str(s).is_ok());
    vcover!("country.parse.rejected", Country::from_str(s).is_err());
}

fn reject_bytes<const N: usize>() {
    let bytes = any_ascii_string::<N>();
    let s = core::str::from_utf8(&bytes).unwrap();
    vpost!("C10.country.only_two_letter_strings_are_accepted", Country::from_str(s).is_err());
}

//@H props=C10 tier=quick kind=complete cap=1200 mem=medium domain="all strings of 2 ASCII bytes x every country"
#[cfg_attr(kani, kani::proof)]
#[cfg_attr(kani, kani::unwind(5))]
#[cfg_attr(verif_replay, test)]
fn country_parse_two_bytes() {
    parse_two_bytes_body()
}

//@H props=C10 tier=quick kind=complete cap=900 domain="the empty string and all strings of 1 ASCII byte"
#[cfg_attr(kani, kani::proof)]
#[cfg_attr(kani, kani::unwind(5))]
#[cfg_attr(verif_replay, test)]
fn country_parse_shorter_strings() {
    reject_bytes::<0>();
    reject_bytes::<1>();
    vcover!("country.parse.shorter.reachable", true);
}

//@H props=C10 tier=thorough kind=complete cap=2400 mem=medium domain="all strings of 3 ASCII bytes"
#[cfg_attr(kani, kani::proof)]
#[cfg_attr(kani, kani::unwind(5))]
#[cfg_attr(verif_replay, test)]
fn country_parse_three_bytes() {
    reject_bytes::<3>();
    vcover!("country.parse.three.reachable", true);
}

//@H props=ENGINE tier=quick kind=canary cap=120 expect=fail
#[cfg_attr(kani, kani::proof)]
#[cfg_attr(verif_replay, test)]
fn canary_country_must_fail() {
    let c = any_country();
    vpost!("CANARY.country.must_fail", c != Country::FR);
}
