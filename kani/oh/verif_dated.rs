//! C01 / C02 / C04 / C08 for *dated ranges* (`MonthdayRange::Date`, e.g. `Dec 24-Jan 6`, `2024 Mar 1-2024 Apr 15`,
//! `easter -2 days-easter +1 day`, `Feb 29`): the code of date_filter.rs that pairs range bounds into intervals
//! (`ensure_increasing_iter`, `intervals_from_bounds`, `is_open_from_intervals`, `next_change_from_intervals`,
//! `date_on_year`) and the two `MonthdayRange::Date` arms of `filter` / `next_change_hint`.
//! Child module of `filter::date_filter` (overlaid).
//!
//! Structure (modular, caller against callee contracts) - the one-piece harnesses (real `filter` over the real lazy
//! pairing iterators, even for one concrete year and with the leaves stubbed) did not finish symbolic execution in
//! 15-35 min: every `peek` / `next_if` of the pairing code re-enters the `filter_map` over the year window.
//!   * leaves `valid_ymd_before`, `valid_ymd_after`, `easter`, `DateOffset::apply`: own contracts, discharged on the
//!     real bodies by `valid_ymd_clamps`, `easter_spec` (verif_date_filter.rs), `date_offset_apply_*` (verif_day.rs);
//!     here they are replaced by *contract models* that return exactly what those contracts state;
//!   * the pairing code (`ensure_increasing_iter`, `intervals_from_bounds`, `is_open_from_intervals`,
//!     `next_change_from_intervals`, through `is_open_from_bounds` / `next_change_from_bounds`) gets the contract
//!     `pairing_is_open` / `pairing_next_change` (precondition: both bound lists strictly increasing), discharged on
//!     the REAL code over arrays of symbolic dates (`dated_pairing_*`, lengths bounded);
//!   * the two `MonthdayRange::Date` arms of `filter` / `next_change_hint` run as REAL code with the pairing entry
//!     points replaced by that contract (a model that drains the bound iterators, asserts the precondition - which the
//!     caller must establish - and returns what the contract states); the postcondition of `filter` is written from
//!     the statement of C01 ("every day from start to end inclusive, recurring yearly when no year is given, through
//!     new year when the end lies before the start"), the postcondition of `next_change_hint` is the hint contract of
//!     C02 / C08.  AST node and date are symbolic over their full domains.
use super::verif_date_filter::{any_date, any_month, date_end, date_start, days_in_month};
use super::*;
use chrono::NaiveDate;
use opening_hours_syntax::rules::day::{DateOffset, WeekDayOffset};
use opening_hours_syntax::verif_nd as nd;
use opening_hours_syntax::{vcover, vpost};

fn ctx() -> Context {
    Context::default()
}

fn ymd(y: i32, m: u32, d: u32) -> NaiveDate {
    NaiveDate::from_ymd_opt(y, m, d).unwrap()
}

// ---- contract models of the leaves ---------------------------------------------------------------------

/// contract of `valid_ymd_after` (discharged on the real body by `valid_ymd_clamps`)
pub(crate) fn valid_ymd_after_model(year: i32, month: u32, day: u32) -> NaiveDate {
    let dim = days_in_month(year, month);
    if day <= dim { ymd(year, month, day) } else { ymd(year, month, dim).succ_opt().unwrap() }
}

/// contract of `valid_ymd_before` (discharged on the real body by `valid_ymd_clamps`)
pub(crate) fn valid_ymd_before_model(year: i32, month: u32, day: u32) -> NaiveDate {
    let dim = days_in_month(year, month);
    ymd(year, month, if day <= dim { day } else { dim })
}

/// a symbolic date of year `Y`; `Y == 0` stands for "any year 1900..=9999" (full domain)
fn any_date_of<const Y: i32>() -> NaiveDate {
    if Y == 0 {
        return any_date();
    }
    let o = nd::u32();
    nd::assume(1 <= o && o <= 366);
    let d = NaiveDate::from_yo_opt(Y, o);
    nd::assume(d.is_some());
    d.unwrap()
}

/// contract of `DateOffset::apply` (discharged on the real body by `date_offset_apply_*`, verif_day.rs): the date
/// shifted by the day offset, then moved to the first target weekday not before / last target weekday not after it.
/// The default offset (no day offset, no weekday) is the identity.
pub(crate) fn date_offset_apply_model(o: &DateOffset, date: NaiveDate) -> NaiveDate {
    let base = if o.day_offset == 0 { date } else { date + Duration::days(o.day_offset) };
    match o.wday_offset {
        WeekDayOffset::None => base,
        WeekDayOffset::Next(t) => {
            base + Duration::days(((7 + t.num_days_from_monday() - base.weekday().num_days_from_monday()) % 7) as i64)
        }
        WeekDayOffset::Prev(t) => {
            base - Duration::days(((7 + base.weekday().num_days_from_monday() - t.num_days_from_monday()) % 7) as i64)
        }
    }
}

fn any_day() -> u8 {
    let d = nd::u8();
    nd::assume(1 <= d && d <= 31);
    d
}

// ---- contract of the pairing code -----------------------------------------------------------------------------------
//
// For strictly increasing bound lists S (starts) and E (ends) the intervals are: each start paired with the first
// end not before it (or 10000-01-01 when there is none); ends that remain after the last start open at 1900-01-01.
// A date is judged by the first interval (in that order) whose end is not before it.

const MAXB: usize = 13;

#[derive(Clone, Copy)]
pub(crate) struct Bounds {
    n: usize,
    v: [NaiveDate; MAXB],
}

impl Bounds {
    fn empty() -> Self {
        Bounds { n: 0, v: [NaiveDate::MIN; MAXB] }
    }

    fn strictly_increasing(&self) -> bool {
        let mut i = 1;
        while i < self.n {
            if self.v[i - 1] >= self.v[i] {
                return false;
            }
            i += 1;
        }
        true
    }

    /// first element not before `x`
    fn first_not_before(&self, x: NaiveDate) -> Option<NaiveDate> {
        let mut i = 0;
        while i < self.n {
            if self.v[i] >= x {
                return Some(self.v[i]);
            }
            i += 1;
        }
        None
    }
}

/// the interval that decides `d`: (start, end) of the first interval whose end is not before `d`
fn pairing_deciding_interval(d: NaiveDate, s: &Bounds, e: &Bounds) -> Option<(NaiveDate, NaiveDate)> {
    let mut i = 0;
    while i < s.n {
        let end = e.first_not_before(s.v[i]).unwrap_or(date_end());
        if end >= d {
            return Some((s.v[i], end));
        }
        i += 1;
    }
    e.first_not_before(d).map(|end| (date_start(), end))
}

/// contract of `is_open_from_bounds`
pub(crate) fn pairing_is_open(d: NaiveDate, s: &Bounds, e: &Bounds) -> bool {
    match pairing_deciding_interval(d, s, e) {
        Some((start, _)) => start <= d,
        None => false,
    }
}

/// contract of `next_change_from_bounds`
pub(crate) fn pairing_next_change(d: NaiveDate, s: &Bounds, e: &Bounds) -> NaiveDate {
    match pairing_deciding_interval(d, s, e) {
        Some((start, end)) => {
            if start <= d { end.succ_opt().unwrap_or(date_end()) } else { start }
        }
        None => date_end(),
    }
}

fn any_bounds<const N: usize>() -> Bounds {
    let mut b = Bounds::empty();
    let mut i = 0;
    while i < N {
        b.v[i] = any_date();
        i += 1;
    }
    b.n = N;
    nd::assume(b.strictly_increasing());
    b
}

fn as_array<const N: usize>(b: &Bounds) -> [NaiveDate; N] {
    let mut out = [NaiveDate::MIN; N];
    let mut i = 0;
    while i < N {
        out[i] = b.v[i];
        i += 1;
    }
    out
}

/// the REAL pairing code against its contract, N start bounds and M end bounds, every bound and the date symbolic
fn pairing_contract_body<const N: usize, const M: usize>() {
    let s = any_bounds::<N>();
    let e = any_bounds::<M>();
    let d = any_date();
    let open = is_open_from_bounds(d, as_array::<N>(&s), as_array::<M>(&e));
    vpost!("C01.dated.pairing.is_open_is_decided_by_the_first_interval_not_ending_before_the_date", open == pairing_is_open(d, &s, &e));
    let next = next_change_from_bounds(d, as_array::<N>(&s), as_array::<M>(&e));
    vpost!("C02.dated.pairing.next_change_is_the_end_or_the_start_of_that_interval", next == pairing_next_change(d, &s, &e));
    vcover!("dated.pairing.open", open);
    vcover!("dated.pairing.closed_between_two_intervals", N < 2 || M == 0 || (!open && d > s.v[0] && d < s.v[N - 1]));
    vcover!("dated.pairing.open_from_the_start_of_time", N != 0 || M == 0 || open);
    vcover!("dated.pairing.closed", !open);
}

//@H tier_C04=thorough props=C01,C02,C04 tier=quick kind=bounded cap=1500 mem=medium bound="1 start bound, 1 end bound" domain="all dates 1900..9999 per bound and for the date"
#[cfg_attr(kani, kani::proof)]
#[cfg_attr(kani, kani::unwind(4))]
#[cfg_attr(verif_replay, test)]
fn dated_pairing_1_1() {
    pairing_contract_body::<1, 1>()
}

//@H props=C01,C02,C04 tier=thorough kind=bounded cap=1500 mem=medium bound="0 start bounds, 2 end bounds" domain="all dates 1900..9999 per bound and for the date"
#[cfg_attr(kani, kani::proof)]
#[cfg_attr(kani, kani::unwind(4))]
#[cfg_attr(verif_replay, test)]
fn dated_pairing_0_2() {
    pairing_contract_body::<0, 2>()
}

//@H props=C01,C02,C04 tier=thorough kind=bounded cap=1500 mem=medium bound="2 start bounds, 0 end bounds" domain="all dates 1900..9999 per bound and for the date"
#[cfg_attr(kani, kani::proof)]
#[cfg_attr(kani, kani::unwind(4))]
#[cfg_attr(verif_replay, test)]
fn dated_pairing_2_0() {
    pairing_contract_body::<2, 0>()
}

//@H props=C01,C02,C04 tier=deep kind=bounded cap=2400 mem=medium bound="2 start bounds, 2 end bounds" domain="all dates 1900..9999 per bound and for the date"
#[cfg_attr(kani, kani::proof)]
#[cfg_attr(kani, kani::unwind(6))]
#[cfg_attr(verif_replay, test)]
fn dated_pairing_2_2() {
    pairing_contract_body::<2, 2>()
}

//@H props=C01,C02,C04 tier=deep kind=bounded cap=2400 mem=medium bound="1 start bound, 3 end bounds (`2025 Jan 10-Jan 20`)" domain="all dates 1900..9999 per bound and for the date"
#[cfg_attr(kani, kani::proof)]
#[cfg_attr(kani, kani::unwind(6))]
#[cfg_attr(verif_replay, test)]
fn dated_pairing_1_3() {
    pairing_contract_body::<1, 3>()
}

//@H props=C01,C02,C04 tier=deep kind=bounded cap=3000 mem=medium bound="3 start bounds, 3 end bounds (a year-less range seen through its three-year window)" domain="all dates 1900..9999 per bound and for the date"
#[cfg_attr(kani, kani::proof)]
#[cfg_attr(kani, kani::unwind(8))]
#[cfg_attr(verif_replay, test)]
fn dated_pairing_3_3() {
    pairing_contract_body::<3, 3>()
}

// ---- contract models of the pairing entry points (what the callers below see instead of the real pairing code) ------
//
// The models read a prefix of at most PREFIX bounds from each (lazy) bound iterator - the hint arm hands over a
// twelve-year window of which only the first years can matter - and evaluate the contract on the prefix.  That the
// prefix decides the answer is itself an obligation (`MODEL...bounds_beyond_the_first_four_cannot_matter`): it fails if the
// contract would have to look at a bound that was not read.

const PREFIX: usize = 4;

/// (bounds read, iterator exhausted)
fn drain_prefix(it: impl IntoIterator<Item = NaiveDate>) -> (Bounds, bool) {
    let mut b = Bounds::empty();
    let mut it = it.into_iter();
    while b.n < PREFIX {
        match it.next() {
            Some(x) => {
                b.v[b.n] = x;
                b.n += 1;
            }
            None => return (b, true),
        }
    }
    (b, false)
}

/// `pairing_deciding_interval` on prefixes: Err(()) when bounds that were not read could change the answer
fn deciding_interval_on_prefix(
    d: NaiveDate,
    s: &Bounds,
    s_exhausted: bool,
    e: &Bounds,
    e_exhausted: bool,
) -> Result<Option<(NaiveDate, NaiveDate)>, ()> {
    let mut i = 0;
    while i < s.n {
        let end = match e.first_not_before(s.v[i]) {
            Some(end) => end,
            None if e_exhausted => date_end(),
            None => return Err(()),
        };
        if end >= d {
            return Ok(Some((s.v[i], end)));
        }
        i += 1;
    }
    if !s_exhausted {
        return Err(());
    }
    match e.first_not_before(d) {
        Some(end) => Ok(Some((date_start(), end))),
        None if e_exhausted => Ok(None),
        None => Err(()),
    }
}

pub(crate) fn is_open_from_bounds_contract(
    date: NaiveDate,
    bounds_start: impl IntoIterator<Item = NaiveDate>,
    bounds_end: impl IntoIterator<Item = NaiveDate>,
) -> bool {
    let ((s, s_ex), (e, e_ex)) = (drain_prefix(bounds_start), drain_prefix(bounds_end));
    // precondition of the pairing contract: established by the caller.  `MODEL.` obligations state that the contract
    // model applies; when one fails the modular argument is inconclusive (the real callee may well cope), so the
    // check reports *undecided* (exit 2), never a violation
    vpost!("MODEL.dated.is_open_caller_passes_strictly_increasing_bounds", s.strictly_increasing() && e.strictly_increasing());
    let decided = deciding_interval_on_prefix(date, &s, s_ex, &e, e_ex);
    vpost!("MODEL.dated.is_open_bounds_beyond_the_first_four_cannot_matter", decided.is_ok());
    match decided {
        Ok(Some((start, _))) => start <= date,
        _ => false,
    }
}

pub(crate) fn next_change_from_bounds_contract(
    date: NaiveDate,
    bounds_start: impl IntoIterator<Item = NaiveDate>,
    bounds_end: impl IntoIterator<Item = NaiveDate>,
) -> NaiveDate {
    let ((s, s_ex), (e, e_ex)) = (drain_prefix(bounds_start), drain_prefix(bounds_end));
    vpost!("MODEL.dated.next_change_caller_passes_strictly_increasing_bounds", s.strictly_increasing() && e.strictly_increasing());
    let decided = deciding_interval_on_prefix(date, &s, s_ex, &e, e_ex);
    vpost!("MODEL.dated.next_change_bounds_beyond_the_first_four_cannot_matter", decided.is_ok());
    match decided {
        Ok(Some((start, end))) => {
            if start <= date { end.succ_opt().unwrap_or(date_end()) } else { start }
        }
        _ => date_end(),
    }
}

/// the prefix evaluation agrees with the contract whenever it gives an answer (pure specification lemma, any lists)
fn prefix_lemma_body<const N: usize, const M: usize>() {
    let s = any_bounds::<N>();
    let e = any_bounds::<M>();
    let d = any_date();
    let (ks, ke) = (nd::u8() as usize, nd::u8() as usize);
    nd::assume(ks <= N && ke <= M);
    let (mut sp, mut ep) = (s, e);
    sp.n = ks;
    ep.n = ke;
    if let Ok(r) = deciding_interval_on_prefix(d, &sp, ks == N, &ep, ke == M) {
        vpost!("C01.dated.prefix_evaluation_agrees_with_the_pairing_contract", r == pairing_deciding_interval(d, &s, &e));
    }
    vcover!("dated.prefix.truncated_and_decided", ks < N && deciding_interval_on_prefix(d, &sp, ks == N, &ep, ke == M).is_ok());
}

//@H props=C01,C02 tier=quick kind=bounded cap=900 bound="lists of 3 start and 3 end bounds, every prefix of them" domain="all dates per bound and for the date"
#[cfg_attr(kani, kani::proof)]
#[cfg_attr(kani, kani::unwind(5))]
#[cfg_attr(verif_replay, test)]
fn dated_prefix_evaluation_lemma() {
    prefix_lemma_body::<3, 3>()
}

// ---- year-less fixed bounds, no offsets: `Dec 24-Jan 6`, `Mar 1-Apr 15`, `Jul 14` -------------------------

/// Statement of C01 for a year-less range `sm sd - em ed`: within the year of `d`, with the nominal bounds clamped
/// to existing days (start forwards, end backwards), every day from start to end inclusive; through new year
/// when the end is nominally before the start.
fn spec_fixed_no_year(sm: u32, sd: u32, em: u32, ed: u32, d: NaiveDate) -> bool {
    let y = d.year();
    let s = valid_ymd_after_model(y, sm, sd);
    let e = valid_ymd_before_model(y, em, ed);
    if (sm, sd) <= (em, ed) { s <= d && d <= e } else { d >= s || d <= e }
}

/// KF-C01-dated-range-of-nonexistent-days: both bounds in the same month, start day <= end day, and the start day does
/// not exist in that month in some year (`Apr 31`, `Feb 30-Feb 31`, `Feb 29-Feb 30`): the clamped start (first day of the
/// next month) lies after the clamped end (last day of the month) and the code treats the range as wrapping over new year
fn invalid_day_region(sm: Month, sd: u8, em: Month, ed: u8) -> bool {
    sm == em && sd <= ed && sd as u32 > days_in_month(1999, sm as u32)
}

fn fixed_no_year_filter_body<const Y: i32>(known_finding_region: bool) {
    let (sm, sd, em, ed) = (any_month(), any_day(), any_month(), any_day());
    let r = ds::MonthdayRange::Date {
        start: (Date::md(sd, sm), DateOffset::default()),
        end: (Date::md(ed, em), DateOffset::default()),
    };
    let d = any_date_of::<Y>();
    nd::assume(invalid_day_region(sm, sd, em, ed) == known_finding_region);
    // leap-day selector has its own arm (`Feb 29`)
    nd::assume(!(sm == Month::February && em == Month::February && sd == 29 && ed == 29));
    let got = r.filter(d, &ctx());
    vpost!(
        "C01.dated.year_less_range_is_every_day_from_start_to_end_recurring_yearly",
        got == spec_fixed_no_year(sm as u32, sd as u32, em as u32, ed as u32, d)
    );
    vcover!("dated.fixed.through_new_year_hit_in_january", got && (sm, sd) > (em, ed) && d.month() == 1);
    vcover!("dated.fixed.single_day", got && sm == em && sd == ed);
    vcover!("dated.fixed.clamped_end", got && ed as u32 > days_in_month(d.year(), em as u32));
    vcover!("dated.fixed.miss_after_end", !got && (sm, sd) <= (em, ed) && d.month() > em as u32);
}

//@H props=C01,C04 tier=thorough kind=complete cap=1800 mem=medium domain="all (month, day 1..=31) start and end bounds x all dates 1900..9999, outside the invalid-day region; callees replaced by their contracts"
#[cfg_attr(kani, kani::proof)]
#[cfg_attr(kani, kani::unwind(5))]
#[cfg_attr(kani, kani::stub(opening_hours_syntax::rules::day::DateOffset::apply, date_offset_apply_model))]
#[cfg_attr(kani, kani::stub(super::valid_ymd_after, valid_ymd_after_model))]
#[cfg_attr(kani, kani::stub(super::valid_ymd_before, valid_ymd_before_model))]
#[cfg_attr(kani, kani::stub(super::is_open_from_bounds, is_open_from_bounds_contract))]
#[cfg_attr(kani, kani::stub(super::next_change_from_bounds, next_change_from_bounds_contract))]
#[cfg_attr(verif_replay, test)]
fn dated_filter_fixed_no_year() {
    fixed_no_year_filter_body::<0>(false)
}

//@H tier_C04=thorough props=C01,C04 tier=quick kind=bounded cap=1500 mem=medium bound="dates of the year 2024 (a leap year)" domain="all (month, day 1..=31) start and end bounds x every day of 2024, outside the invalid-day region; callees replaced by their contracts"
#[cfg_attr(kani, kani::proof)]
#[cfg_attr(kani, kani::unwind(5))]
#[cfg_attr(kani, kani::stub(opening_hours_syntax::rules::day::DateOffset::apply, date_offset_apply_model))]
#[cfg_attr(kani, kani::stub(super::valid_ymd_after, valid_ymd_after_model))]
#[cfg_attr(kani, kani::stub(super::valid_ymd_before, valid_ymd_before_model))]
#[cfg_attr(kani, kani::stub(super::is_open_from_bounds, is_open_from_bounds_contract))]
#[cfg_attr(kani, kani::stub(super::next_change_from_bounds, next_change_from_bounds_contract))]
#[cfg_attr(verif_replay, test)]
fn dated_filter_fixed_no_year_2024() {
    fixed_no_year_filter_body::<2024>(false)
}

//@H props=C01 tier=quick kind=bounded cap=1500 mem=medium finding=KF-C01-dated-range-of-nonexistent-days bound="the witness `Apr 31`, dates of the year 2024" domain="`Apr 31` x every day of 2024"
#[cfg_attr(kani, kani::proof)]
#[cfg_attr(kani, kani::unwind(5))]
#[cfg_attr(kani, kani::stub(opening_hours_syntax::rules::day::DateOffset::apply, date_offset_apply_model))]
#[cfg_attr(kani, kani::stub(super::valid_ymd_after, valid_ymd_after_model))]
#[cfg_attr(kani, kani::stub(super::valid_ymd_before, valid_ymd_before_model))]
#[cfg_attr(kani, kani::stub(super::is_open_from_bounds, is_open_from_bounds_contract))]
#[cfg_attr(kani, kani::stub(super::next_change_from_bounds, next_change_from_bounds_contract))]
#[cfg_attr(verif_replay, test)]
fn dated_filter_nonexistent_days_known_finding() {
    // the witness of KNOWN_FINDINGS.json: `Apr 31`
    let r = ds::MonthdayRange::Date {
        start: (Date::md(31, Month::April), DateOffset::default()),
        end: (Date::md(31, Month::April), DateOffset::default()),
    };
    let d = any_date_of::<2024>();
    let got = r.filter(d, &ctx());
    vpost!("C01.dated.year_less_range_is_every_day_from_start_to_end_recurring_yearly", got == spec_fixed_no_year(4, 31, 4, 31, d));
}

//@H props=C01,C04 tier=thorough kind=bounded cap=1500 mem=medium bound="dates of the year 2100 (a century year that is not a leap year)" domain="all (month, day 1..=31) start and end bounds x every day of 2100, outside the invalid-day region; callees replaced by their contracts"
#[cfg_attr(kani, kani::proof)]
#[cfg_attr(kani, kani::unwind(5))]
#[cfg_attr(kani, kani::stub(opening_hours_syntax::rules::day::DateOffset::apply, date_offset_apply_model))]
#[cfg_attr(kani, kani::stub(super::valid_ymd_after, valid_ymd_after_model))]
#[cfg_attr(kani, kani::stub(super::valid_ymd_before, valid_ymd_before_model))]
#[cfg_attr(kani, kani::stub(super::is_open_from_bounds, is_open_from_bounds_contract))]
#[cfg_attr(kani, kani::stub(super::next_change_from_bounds, next_change_from_bounds_contract))]
#[cfg_attr(verif_replay, test)]
fn dated_filter_fixed_no_year_2100() {
    fixed_no_year_filter_body::<2100>(false)
}

//@H props=C01,C04 tier=thorough kind=bounded cap=1500 mem=medium bound="dates of the year 9999 (the last supported year)" domain="all (month, day 1..=31) start and end bounds x every day of 9999, outside the invalid-day region; callees replaced by their contracts"
#[cfg_attr(kani, kani::proof)]
#[cfg_attr(kani, kani::unwind(5))]
#[cfg_attr(kani, kani::stub(opening_hours_syntax::rules::day::DateOffset::apply, date_offset_apply_model))]
#[cfg_attr(kani, kani::stub(super::valid_ymd_after, valid_ymd_after_model))]
#[cfg_attr(kani, kani::stub(super::valid_ymd_before, valid_ymd_before_model))]
#[cfg_attr(kani, kani::stub(super::is_open_from_bounds, is_open_from_bounds_contract))]
#[cfg_attr(kani, kani::stub(super::next_change_from_bounds, next_change_from_bounds_contract))]
#[cfg_attr(verif_replay, test)]
fn dated_filter_fixed_no_year_9999() {
    fixed_no_year_filter_body::<9999>(false)
}


// ---- the interval pairing code on abstract bound lists ------------------------------------------------------

fn any_dates<const N: usize>() -> [NaiveDate; N] {
    let mut out = [date_start(); N];
    let mut i = 0;
    while i < N {
        out[i] = any_date();
        i += 1;
    }
    out
}

/// `intervals_from_bounds` on arbitrary bound lists (any order, duplicates allowed): every produced interval has
/// start <= end, interval ends never decrease (what `is_open_from_intervals` / `next_change_from_intervals` rely on
/// when they stop at the first interval whose end is not before the date), the `unreachable!()` arm is unreachable.
fn intervals_from_bounds_body<const N: usize, const M: usize>() {
    let starts = any_dates::<N>();
    let ends = any_dates::<M>();
    let mut it = intervals_from_bounds(starts, ends);
    let mut prev_end: Option<NaiveDate> = None;
    let mut count = 0;
    while let Some(rg) = it.next() {
        vpost!("C01.dated.pairing.interval_start_is_not_after_its_end", rg.start() <= rg.end());
        vpost!("C01.dated.pairing.interval_ends_never_decrease", prev_end.map_or(true, |p| p <= *rg.end()));
        prev_end = Some(*rg.end());
        count += 1;
    }
    vpost!("C04.dated.pairing.yields_at_most_one_interval_per_bound", count <= N + M);
    vcover!("dated.pairing.two_intervals", count >= 2);
    vcover!("dated.pairing.stale_ends_dropped", N >= 1 && M >= 3 && ends[0] < ends[1] && ends[1] < starts[0] && starts[0] < ends[2]);
}

//@H props=C01,C04 tier=thorough kind=bounded cap=1500 mem=medium bound="1 start bound, 3 end bounds (the shape of `2025 Jan 10-Jan 20` seen from the year before)" domain="all dates 1900..9999 per bound, any order"
#[cfg_attr(kani, kani::proof)]
#[cfg_attr(kani, kani::unwind(5))]
#[cfg_attr(verif_replay, test)]
fn dated_intervals_from_bounds_1_3() {
    intervals_from_bounds_body::<1, 3>()
}

//@H props=C01,C04 tier=deep kind=bounded cap=2400 mem=medium bound="2 start bounds, 2 end bounds" domain="all dates 1900..9999 per bound, any order"
#[cfg_attr(kani, kani::proof)]
#[cfg_attr(kani, kani::unwind(4))]
#[cfg_attr(verif_replay, test)]
fn dated_intervals_from_bounds_2_2() {
    intervals_from_bounds_body::<2, 2>()
}

// ---- `Feb 29` ------------------------------------------------------------------------------------------------------

fn feb29_range() -> ds::MonthdayRange {
    ds::MonthdayRange::Date {
        start: (Date::md(29, Month::February), DateOffset::default()),
        end: (Date::md(29, Month::February), DateOffset::default()),
    }
}

fn is_feb29(d: NaiveDate) -> bool {
    d.month() == 2 && d.day() == 29
}

fn feb29_filter_body<const Y: i32>() {
    let r = feb29_range();
    let d = any_date_of::<Y>();
    let got = r.filter(d, &ctx());
    vpost!("C01.dated.feb29_matches_exactly_the_leap_days", got == is_feb29(d));
    vcover!("dated.feb29.hit", got || !is_feb29(ymd(Y, 3, 1).pred_opt().unwrap()));
    vcover!("dated.feb29.miss_in_february", !got && d.month() == 2);
}

fn feb29_hint_body<const Y: i32>() {
    let r = feb29_range();
    let d = any_date_of::<Y>();
    let between = any_date();
    let hint = r.next_change_hint(d, &ctx());
    // a missing hint is always sound (the iterator then advances day by day): reachability only
    vcover!("dated.cover_feb29_hint_exists", hint.is_some());
    if let Some(h) = hint {
        vpost!("C02.dated.feb29_hint_is_after_the_date", h > d);
        vpost!(
            "C02.dated.feb29_hint_no_change_before_hint",
            !(d < between && between < h && is_feb29(between) != is_feb29(d))
        );
        vpost!("C08.dated.feb29_hint_within_supported_range_or_dropped", h <= date_end() || h.year() == 10000);
    }
    vcover!("dated.feb29_hint.reachable", true);
    vcover!("dated.feb29_hint.years_ahead", matches!(hint, Some(h) if h.year() - d.year() >= 3));
}

//@H tier_C04=thorough props=C01,C04 tier=quick kind=bounded cap=1800 mem=medium bound="dates of the year 2024: a leap year" domain="`Feb 29` without offsets x every day of 2024; the search over leap years is closed by the 8-year gap (unwinding assertion on)"
#[cfg_attr(kani, kani::proof)]
#[cfg_attr(kani, kani::unwind(12))]
#[cfg_attr(kani, kani::stub(opening_hours_syntax::rules::day::DateOffset::apply, date_offset_apply_model))]
#[cfg_attr(kani, kani::stub(super::valid_ymd_after, valid_ymd_after_model))]
#[cfg_attr(kani, kani::stub(super::valid_ymd_before, valid_ymd_before_model))]
#[cfg_attr(kani, kani::stub(super::is_open_from_bounds, is_open_from_bounds_contract))]
#[cfg_attr(kani, kani::stub(super::next_change_from_bounds, next_change_from_bounds_contract))]
#[cfg_attr(verif_replay, test)]
fn dated_filter_feb29_2024() {
    feb29_filter_body::<2024>()
}

//@H props=C02,C08,C04 tier=thorough kind=bounded cap=1800 mem=medium bound="dates of the year 2024: a leap year" domain="`Feb 29` without offsets x every day of 2024 x all intermediate dates; leap-year search closed by the 8-year gap (unwinding assertion on)"
#[cfg_attr(kani, kani::proof)]
#[cfg_attr(kani, kani::unwind(12))]
#[cfg_attr(kani, kani::stub(opening_hours_syntax::rules::day::DateOffset::apply, date_offset_apply_model))]
#[cfg_attr(kani, kani::stub(super::valid_ymd_after, valid_ymd_after_model))]
#[cfg_attr(kani, kani::stub(super::valid_ymd_before, valid_ymd_before_model))]
#[cfg_attr(kani, kani::stub(super::is_open_from_bounds, is_open_from_bounds_contract))]
#[cfg_attr(kani, kani::stub(super::next_change_from_bounds, next_change_from_bounds_contract))]
#[cfg_attr(verif_replay, test)]
fn dated_hint_feb29_2024() {
    feb29_hint_body::<2024>()
}

//@H props=C01,C04 tier=thorough kind=bounded cap=1800 mem=medium bound="dates of the year 2097: the next leap day is eight years ahead (2100 is not a leap year)" domain="`Feb 29` without offsets x every day of 2097; the search over leap years is closed by the 8-year gap (unwinding assertion on)"
#[cfg_attr(kani, kani::proof)]
#[cfg_attr(kani, kani::unwind(12))]
#[cfg_attr(kani, kani::stub(opening_hours_syntax::rules::day::DateOffset::apply, date_offset_apply_model))]
#[cfg_attr(kani, kani::stub(super::valid_ymd_after, valid_ymd_after_model))]
#[cfg_attr(kani, kani::stub(super::valid_ymd_before, valid_ymd_before_model))]
#[cfg_attr(kani, kani::stub(super::is_open_from_bounds, is_open_from_bounds_contract))]
#[cfg_attr(kani, kani::stub(super::next_change_from_bounds, next_change_from_bounds_contract))]
#[cfg_attr(verif_replay, test)]
fn dated_filter_feb29_2097() {
    feb29_filter_body::<2097>()
}

//@H tier_C04=thorough props=C02,C08,C04 tier=quick kind=bounded cap=1800 mem=medium bound="dates of the year 2097: the next leap day is eight years ahead (2100 is not a leap year)" domain="`Feb 29` without offsets x every day of 2097 x all intermediate dates; leap-year search closed by the 8-year gap (unwinding assertion on)"
#[cfg_attr(kani, kani::proof)]
#[cfg_attr(kani, kani::unwind(12))]
#[cfg_attr(kani, kani::stub(opening_hours_syntax::rules::day::DateOffset::apply, date_offset_apply_model))]
#[cfg_attr(kani, kani::stub(super::valid_ymd_after, valid_ymd_after_model))]
#[cfg_attr(kani, kani::stub(super::valid_ymd_before, valid_ymd_before_model))]
#[cfg_attr(kani, kani::stub(super::is_open_from_bounds, is_open_from_bounds_contract))]
#[cfg_attr(kani, kani::stub(super::next_change_from_bounds, next_change_from_bounds_contract))]
#[cfg_attr(verif_replay, test)]
fn dated_hint_feb29_2097() {
    feb29_hint_body::<2097>()
}

//@H props=C01,C04 tier=thorough kind=bounded cap=1800 mem=medium bound="dates of the year 9997: the last leap day of the supported range lies behind" domain="`Feb 29` without offsets x every day of 9997; the search over leap years is closed by the 8-year gap (unwinding assertion on)"
#[cfg_attr(kani, kani::proof)]
#[cfg_attr(kani, kani::unwind(12))]
#[cfg_attr(kani, kani::stub(opening_hours_syntax::rules::day::DateOffset::apply, date_offset_apply_model))]
#[cfg_attr(kani, kani::stub(super::valid_ymd_after, valid_ymd_after_model))]
#[cfg_attr(kani, kani::stub(super::valid_ymd_before, valid_ymd_before_model))]
#[cfg_attr(kani, kani::stub(super::is_open_from_bounds, is_open_from_bounds_contract))]
#[cfg_attr(kani, kani::stub(super::next_change_from_bounds, next_change_from_bounds_contract))]
#[cfg_attr(verif_replay, test)]
fn dated_filter_feb29_9997() {
    feb29_filter_body::<9997>()
}

//@H props=C02,C08,C04 tier=thorough kind=bounded cap=1800 mem=medium bound="dates of the year 9997: the last leap day of the supported range lies behind" domain="`Feb 29` without offsets x every day of 9997 x all intermediate dates; leap-year search closed by the 8-year gap (unwinding assertion on)"
#[cfg_attr(kani, kani::proof)]
#[cfg_attr(kani, kani::unwind(12))]
#[cfg_attr(kani, kani::stub(opening_hours_syntax::rules::day::DateOffset::apply, date_offset_apply_model))]
#[cfg_attr(kani, kani::stub(super::valid_ymd_after, valid_ymd_after_model))]
#[cfg_attr(kani, kani::stub(super::valid_ymd_before, valid_ymd_before_model))]
#[cfg_attr(kani, kani::stub(super::is_open_from_bounds, is_open_from_bounds_contract))]
#[cfg_attr(kani, kani::stub(super::next_change_from_bounds, next_change_from_bounds_contract))]
#[cfg_attr(verif_replay, test)]
fn dated_hint_feb29_9997() {
    feb29_hint_body::<9997>()
}

// ---- bounds that carry a year: `2024 Mar 1-2024 Apr 15`, `2021 Dec 20-2022 Jan 5`, `2021 Mar 28-Apr 16` -----------------

fn any_year() -> u16 {
    let y = nd::u16();
    nd::assume(1900 <= y && y <= 9999);
    y
}

/// C01 for a range whose two bounds carry a year: every day from the start to the end, once.
fn fixed_with_years_filter_body<const Y: i32>() {
    let (sy, sm, sd) = (any_year(), any_month(), any_day());
    let (ey, em, ed) = (any_year(), any_month(), any_day());
    let r = ds::MonthdayRange::Date {
        start: (Date::ymd(sd, sm, sy), DateOffset::default()),
        end: (Date::ymd(ed, em, ey), DateOffset::default()),
    };
    let d = any_date_of::<Y>();
    let s = valid_ymd_after_model(sy as i32, sm as u32, sd as u32);
    let e = valid_ymd_before_model(ey as i32, em as u32, ed as u32);
    // a range whose end precedes its start is not defined by the statement
    nd::assume(s <= e);
    let got = r.filter(d, &ctx());
    vpost!("C01.dated.range_with_years_is_every_day_from_start_to_end", got == (s <= d && d <= e));
    vcover!("dated.years.hit_in_the_start_year", got && d.year() == sy as i32);
    vcover!("dated.years.hit_in_a_later_year", got && d.year() > sy as i32);
    vcover!("dated.years.hit_more_than_a_year_from_both_bounds", got && d.year() > sy as i32 + 1 && d.year() < ey as i32 - 1);
    vcover!("dated.years.miss_after_the_end", !got && d > e);
    vcover!("dated.years.miss_before_the_start", !got && d < s);
}

//@H tier_C04=thorough props=C01,C04 tier=quick kind=complete cap=1800 mem=medium domain="all (year 1900..=9999, month, day 1..=31) start and end bounds with start <= end x all dates 1900..9999; callees replaced by their contracts"
#[cfg_attr(kani, kani::proof)]
#[cfg_attr(kani, kani::unwind(5))]
#[cfg_attr(kani, kani::stub(opening_hours_syntax::rules::day::DateOffset::apply, date_offset_apply_model))]
#[cfg_attr(kani, kani::stub(super::valid_ymd_after, valid_ymd_after_model))]
#[cfg_attr(kani, kani::stub(super::valid_ymd_before, valid_ymd_before_model))]
#[cfg_attr(kani, kani::stub(super::is_open_from_bounds, is_open_from_bounds_contract))]
#[cfg_attr(kani, kani::stub(super::next_change_from_bounds, next_change_from_bounds_contract))]
#[cfg_attr(verif_replay, test)]
fn dated_filter_fixed_with_years() {
    fixed_with_years_filter_body::<0>()
}

//@H props=C01,C04 tier=deep kind=bounded cap=1500 mem=medium bound="dates of the year 2024 (a leap year)" domain="all (year 1900..=9999, month, day 1..=31) start and end bounds with start <= end x every day of 2024; callees replaced by their contracts"
#[cfg_attr(kani, kani::proof)]
#[cfg_attr(kani, kani::unwind(5))]
#[cfg_attr(kani, kani::stub(opening_hours_syntax::rules::day::DateOffset::apply, date_offset_apply_model))]
#[cfg_attr(kani, kani::stub(super::valid_ymd_after, valid_ymd_after_model))]
#[cfg_attr(kani, kani::stub(super::valid_ymd_before, valid_ymd_before_model))]
#[cfg_attr(kani, kani::stub(super::is_open_from_bounds, is_open_from_bounds_contract))]
#[cfg_attr(kani, kani::stub(super::next_change_from_bounds, next_change_from_bounds_contract))]
#[cfg_attr(verif_replay, test)]
fn dated_filter_fixed_with_years_2024() {
    fixed_with_years_filter_body::<2024>()
}


/// the range meant by `<sy> <sm> <sd> - <em> <ed>` (year on the start only): from the start to the first such end
/// date on or after it
fn start_year_only_range(sy: u16, sm: Month, sd: u8, em: Month, ed: u8) -> (NaiveDate, NaiveDate) {
    let s = valid_ymd_after_model(sy as i32, sm as u32, sd as u32);
    let e0 = valid_ymd_before_model(sy as i32, em as u32, ed as u32);
    let e = if e0 >= s { e0 } else { valid_ymd_before_model(sy as i32 + 1, em as u32, ed as u32) };
    (s, e)
}

//@H props=C01,C04 tier=thorough kind=complete cap=1800 mem=medium domain="ranges whose start carries a year and whose end does not (`2021 Mar 28-Apr 16`) x all dates 1900..9999"
#[cfg_attr(kani, kani::proof)]
#[cfg_attr(kani, kani::unwind(5))]
#[cfg_attr(kani, kani::stub(opening_hours_syntax::rules::day::DateOffset::apply, date_offset_apply_model))]
#[cfg_attr(kani, kani::stub(super::valid_ymd_after, valid_ymd_after_model))]
#[cfg_attr(kani, kani::stub(super::valid_ymd_before, valid_ymd_before_model))]
#[cfg_attr(kani, kani::stub(super::is_open_from_bounds, is_open_from_bounds_contract))]
#[cfg_attr(kani, kani::stub(super::next_change_from_bounds, next_change_from_bounds_contract))]
#[cfg_attr(verif_replay, test)]
fn dated_filter_year_on_start_only() {
    let (sy, sm, sd, em, ed) = (any_year(), any_month(), any_day(), any_month(), any_day());
    let r = ds::MonthdayRange::Date {
        start: (Date::ymd(sd, sm, sy), DateOffset::default()),
        end: (Date::md(ed, em), DateOffset::default()),
    };
    let d = any_date();
    let (s, e) = start_year_only_range(sy, sm, sd, em, ed);
    let got = r.filter(d, &ctx());
    vpost!("C01.dated.range_with_year_on_start_only_is_every_day_from_start_to_the_next_such_end", got == (s <= d && d <= e));
    vcover!("dated.start_year_only.hit", got);
    vcover!("dated.start_year_only.end_in_the_next_year", got && e.year() > s.year() && d.year() == e.year());
    vcover!("dated.start_year_only.miss_in_a_later_year", !got && d.year() > e.year());
}

/// C02 / C08 for the hint arm taken when the start bound carries a year (end with or without a year)
fn start_year_hint_body<const Y: i32>(end_has_year: bool) {
    let (sy, sm, sd) = (any_year(), any_month(), any_day());
    let (ey, em, ed) = (any_year(), any_month(), any_day());
    let end = if end_has_year { Date::ymd(ed, em, ey) } else { Date::md(ed, em) };
    let r = ds::MonthdayRange::Date { start: (Date::ymd(sd, sm, sy), DateOffset::default()), end: (end, DateOffset::default()) };
    let d = any_date_of::<Y>();
    let between = any_date();
    // nominal days beyond the end of their month and reversed ranges: the statement defines neither
    nd::assume(sd as u32 <= days_in_month(sy as i32, sm as u32));
    let (s, e) = if end_has_year {
        nd::assume(ed as u32 <= days_in_month(ey as i32, em as u32));
        (ymd(sy as i32, sm as u32, sd as u32), ymd(ey as i32, em as u32, ed as u32))
    } else {
        nd::assume(ed as u32 <= 28 || (em != Month::February && ed as u32 <= days_in_month(1999, em as u32)));
        start_year_only_range(sy, sm, sd, em, ed)
    };
    nd::assume(s <= e);
    let hint = r.next_change_hint(d, &ctx());
    let inside = |x: NaiveDate| s <= x && x <= e;
    // a missing hint is always sound (the iterator then advances day by day): reachability only
    vcover!("dated.cover_start_year_hint_exists", hint.is_some());
    if let Some(h) = hint {
        vpost!("C02.dated.start_year_hint_is_after_the_date", h > d);
        vpost!("C02.dated.start_year_hint_no_change_before_hint", !(d < between && between < h && inside(between) != inside(d)));
        vpost!("C08.dated.start_year_hint_within_supported_range_or_dropped", h <= date_end() || h.year() == 10000);
    }
    vcover!("dated.start_year_hint.before", d < s);
    vcover!("dated.start_year_hint.inside", inside(d));
    vcover!("dated.start_year_hint.after", hint == Some(date_end()));
    vcover!("dated.start_year_hint.end_in_next_year", end_has_year || e.year() > s.year());
}

//@H tier_C04=thorough props=C02,C08,C04 tier=quick kind=complete cap=1800 mem=medium domain="ranges with years on both bounds (existing days, start <= end) x all dates x all intermediate dates"
#[cfg_attr(kani, kani::proof)]
#[cfg_attr(kani, kani::unwind(6))]
#[cfg_attr(kani, kani::stub(opening_hours_syntax::rules::day::DateOffset::apply, date_offset_apply_model))]
#[cfg_attr(kani, kani::stub(super::valid_ymd_after, valid_ymd_after_model))]
#[cfg_attr(kani, kani::stub(super::valid_ymd_before, valid_ymd_before_model))]
#[cfg_attr(kani, kani::stub(super::is_open_from_bounds, is_open_from_bounds_contract))]
#[cfg_attr(kani, kani::stub(super::next_change_from_bounds, next_change_from_bounds_contract))]
#[cfg_attr(verif_replay, test)]
fn dated_hint_years_on_both_bounds() {
    start_year_hint_body::<0>(true)
}

//@H props=C02,C08,C04 tier=thorough kind=complete cap=1800 mem=medium domain="ranges with a year on the start only (existing days) x all dates x all intermediate dates"
#[cfg_attr(kani, kani::proof)]
#[cfg_attr(kani, kani::unwind(6))]
#[cfg_attr(kani, kani::stub(opening_hours_syntax::rules::day::DateOffset::apply, date_offset_apply_model))]
#[cfg_attr(kani, kani::stub(super::valid_ymd_after, valid_ymd_after_model))]
#[cfg_attr(kani, kani::stub(super::valid_ymd_before, valid_ymd_before_model))]
#[cfg_attr(kani, kani::stub(super::is_open_from_bounds, is_open_from_bounds_contract))]
#[cfg_attr(kani, kani::stub(super::next_change_from_bounds, next_change_from_bounds_contract))]
#[cfg_attr(verif_replay, test)]
fn dated_hint_year_on_start_only() {
    start_year_hint_body::<0>(false)
}

// ---- year-less fixed bounds with day offsets: `Dec 24 -2 days-Jan 6 +3 days`, `Jan 2 -5 days-Jan 10` ------------------------

//@H props=C01,C04 tier=deep kind=bounded cap=5400 mem=medium note="not finished after 40 min (solver); kept for the deep tier" bound="day offsets within +-10 days on both bounds, no weekday offsets" domain="all year-less (month, day) bounds x all dates 1900..9999, outside the invalid-day region; callees replaced by their contracts"
#[cfg_attr(kani, kani::proof)]
#[cfg_attr(kani, kani::unwind(5))]
#[cfg_attr(kani, kani::stub(opening_hours_syntax::rules::day::DateOffset::apply, date_offset_apply_model))]
#[cfg_attr(kani, kani::stub(super::valid_ymd_after, valid_ymd_after_model))]
#[cfg_attr(kani, kani::stub(super::valid_ymd_before, valid_ymd_before_model))]
#[cfg_attr(kani, kani::stub(super::is_open_from_bounds, is_open_from_bounds_contract))]
#[cfg_attr(kani, kani::stub(super::next_change_from_bounds, next_change_from_bounds_contract))]
#[cfg_attr(verif_replay, test)]
fn dated_filter_fixed_no_year_day_offsets() {
    let (sm, sd, em, ed) = (any_month(), any_day(), any_month(), any_day());
    let (so, eo) = (nd::i64(), nd::i64());
    nd::assume(-10 <= so && so <= 10 && -10 <= eo && eo <= 10);
    nd::assume(!invalid_day_region(sm, sd, em, ed));
    nd::assume(!(sm == Month::February && em == Month::February && sd == 29 && ed == 29));
    let r = ds::MonthdayRange::Date {
        start: (Date::md(sd, sm), DateOffset { wday_offset: WeekDayOffset::None, day_offset: so }),
        end: (Date::md(ed, em), DateOffset { wday_offset: WeekDayOffset::None, day_offset: eo }),
    };
    let d = any_date();
    let got = r.filter(d, &ctx());
    // statement: every day from a shifted start to the next shifted end; the shifted bounds of the years
    // around the date are the only ones that can reach it when the offsets are small
    let (mut starts, mut ends) = (Bounds::empty(), Bounds::empty());
    let mut i = 0;
    while i < 3 {
        let y = d.year() - 1 + i as i32;
        starts.v[i] = valid_ymd_after_model(y, sm as u32, sd as u32) + Duration::days(so);
        ends.v[i] = valid_ymd_before_model(y, em as u32, ed as u32) + Duration::days(eo);
        i += 1;
    }
    starts.n = 3;
    ends.n = 3;
    vpost!("C01.dated.shifted_year_less_range_is_every_day_from_shifted_start_to_next_shifted_end", got == pairing_is_open(d, &starts, &ends));
    vcover!("dated.offsets.start_shifted_into_the_previous_year_hit", got && sm == Month::January && so < 0 && d.month() == 12);
    vcover!("dated.offsets.end_shifted_hit", got && eo > 0 && d > valid_ymd_before_model(d.year(), em as u32, ed as u32));
}

// ---- Easter-based ranges: `easter`, `easter -2 days-easter +1 day` --------------------------------------------------------
//
// `easter(year)` has its own contract (a Sunday between Mar 22 and Apr 25 of that year equal to an independent computus:
// `easter_spec`).  Here it is replaced by an abstract model that returns, per year, ANY date in that window - chosen by
// the harness for the three years around the date - so the obligation holds for every computus.

static mut EASTER_BASE_YEAR: i32 = 0;
static mut EASTER_DAYS_AFTER_MAR_22: [u32; 3] = [0; 3];

pub(crate) fn easter_model(year: i32) -> Option<NaiveDate> {
    let (base, table) = unsafe { (EASTER_BASE_YEAR, EASTER_DAYS_AFTER_MAR_22) };
    let k = if year == base - 1 { table[0] } else if year == base { table[1] } else if year == base + 1 { table[2] } else { 0 };
    Some(ymd(year, 3, 22) + Duration::days(k as i64))
}

fn any_small_offset() -> DateOffset {
    let o = nd::i64();
    nd::assume(-40 <= o && o <= 40);
    DateOffset { wday_offset: WeekDayOffset::None, day_offset: o }
}

//@H props=C01,C04 tier=thorough kind=bounded cap=3000 mem=medium bound="day offsets within +-40 days, start offset <= end offset, no weekday offsets" domain="year-less `easter [offset] - easter [offset]` x any Easter date per year (Mar 22 ..= Apr 25) x all dates 1900..9999; callees replaced by their contracts"
#[cfg_attr(kani, kani::proof)]
#[cfg_attr(kani, kani::unwind(5))]
#[cfg_attr(kani, kani::stub(crate::utils::dates::easter, easter_model))]
#[cfg_attr(kani, kani::stub(opening_hours_syntax::rules::day::DateOffset::apply, date_offset_apply_model))]
#[cfg_attr(kani, kani::stub(super::valid_ymd_after, valid_ymd_after_model))]
#[cfg_attr(kani, kani::stub(super::valid_ymd_before, valid_ymd_before_model))]
#[cfg_attr(kani, kani::stub(super::is_open_from_bounds, is_open_from_bounds_contract))]
#[cfg_attr(kani, kani::stub(super::next_change_from_bounds, next_change_from_bounds_contract))]
#[cfg_attr(verif_replay, test)]
fn dated_filter_easter_range() {
    let (so, eo) = (any_small_offset(), any_small_offset());
    nd::assume(so.day_offset <= eo.day_offset);
    let r = ds::MonthdayRange::Date { start: (Date::Easter { year: None }, so), end: (Date::Easter { year: None }, eo) };
    let d = any_date();
    let table = [nd::u32(), nd::u32(), nd::u32()];
    nd::assume(table[0] <= 34 && table[1] <= 34 && table[2] <= 34);
    unsafe {
        EASTER_BASE_YEAR = d.year();
        EASTER_DAYS_AFTER_MAR_22 = table;
    }
    let got = r.filter(d, &ctx());
    // statement: every day from (Easter + start offset) to (Easter + end offset) of some year
    let mut spec = false;
    let mut i = 0;
    while i < 3 {
        let e = ymd(d.year() - 1 + i as i32, 3, 22) + Duration::days(table[i] as i64);
        if e + Duration::days(so.day_offset) <= d && d <= e + Duration::days(eo.day_offset) {
            spec = true;
        }
        i += 1;
    }
    vpost!("C01.dated.easter_range_is_every_day_from_easter_plus_start_offset_to_easter_plus_end_offset", got == spec);
    vcover!("dated.easter.hit_on_easter_sunday", got && so.day_offset == 0 && eo.day_offset == 0);
    vcover!("dated.easter.hit_before_easter", got && d < ymd(d.year(), 3, 22) + Duration::days(table[1] as i64) && d.month() >= 3);
    vcover!("dated.easter.miss_between", !got && d.month() == 4);
}

// ---- hint of a year-less range ---------------------------------------------------------------------------------

fn fixed_no_year_hint_body<const Y: i32>() {
    let (sm, sd, em, ed) = (any_month(), any_day(), any_month(), any_day());
    let r = ds::MonthdayRange::Date {
        start: (Date::md(sd, sm), DateOffset::default()),
        end: (Date::md(ed, em), DateOffset::default()),
    };
    let d = any_date_of::<Y>();
    // a hint never reaches further than the end of the following year for these ranges
    let between = any_date();
    // same carve-outs as the filter harness: invalid single day (known finding), leap-day arm
    nd::assume(!invalid_day_region(sm, sd, em, ed));
    nd::assume(!(sm == Month::February && em == Month::February && sd == 29 && ed == 29));
    let spec = |x: NaiveDate| spec_fixed_no_year(sm as u32, sd as u32, em as u32, ed as u32, x);
    let hint = r.next_change_hint(d, &ctx());
    // a missing hint is always sound (the iterator then advances day by day): reachability only
    vcover!("dated.cover_year_less_hint_exists", hint.is_some());
    if let Some(h) = hint {
        vpost!("C02.dated.year_less_hint_is_after_the_date", h > d);
        vpost!("C02.dated.year_less_hint_no_change_before_hint", !(d < between && between < h && spec(between) != spec(d)));
        vpost!("C08.dated.year_less_hint_within_supported_range_or_dropped", h <= date_end() || h.year() == 10000);
    }
    vcover!("dated.year_less_hint.inside", spec(d));
    vcover!("dated.year_less_hint.outside", !spec(d));
    vcover!("dated.year_less_hint.next_year", matches!(hint, Some(h) if h.year() > d.year()));
}

//@H props=C02,C08,C04 tier=thorough kind=complete cap=2400 mem=medium domain="all year-less (month, day) bounds x all dates x all intermediate dates, outside the invalid-day region; callees replaced by their contracts"
#[cfg_attr(kani, kani::proof)]
#[cfg_attr(kani, kani::unwind(6))]
#[cfg_attr(kani, kani::stub(opening_hours_syntax::rules::day::DateOffset::apply, date_offset_apply_model))]
#[cfg_attr(kani, kani::stub(super::valid_ymd_after, valid_ymd_after_model))]
#[cfg_attr(kani, kani::stub(super::valid_ymd_before, valid_ymd_before_model))]
#[cfg_attr(kani, kani::stub(super::is_open_from_bounds, is_open_from_bounds_contract))]
#[cfg_attr(kani, kani::stub(super::next_change_from_bounds, next_change_from_bounds_contract))]
#[cfg_attr(verif_replay, test)]
fn dated_hint_fixed_no_year() {
    fixed_no_year_hint_body::<0>()
}

//@H props=C02,C08,C04 tier=thorough kind=bounded cap=1500 mem=medium bound="dates of the year 2024 (a leap year)" domain="all year-less (month, day) bounds x every day of 2024 x all intermediate dates, outside the invalid-day region; callees replaced by their contracts"
#[cfg_attr(kani, kani::proof)]
#[cfg_attr(kani, kani::unwind(6))]
#[cfg_attr(kani, kani::stub(opening_hours_syntax::rules::day::DateOffset::apply, date_offset_apply_model))]
#[cfg_attr(kani, kani::stub(super::valid_ymd_after, valid_ymd_after_model))]
#[cfg_attr(kani, kani::stub(super::valid_ymd_before, valid_ymd_before_model))]
#[cfg_attr(kani, kani::stub(super::is_open_from_bounds, is_open_from_bounds_contract))]
#[cfg_attr(kani, kani::stub(super::next_change_from_bounds, next_change_from_bounds_contract))]
#[cfg_attr(verif_replay, test)]
fn dated_hint_fixed_no_year_2024() {
    fixed_no_year_hint_body::<2024>()
}

//@H props=C02,C08,C04 tier=thorough kind=bounded cap=1500 mem=medium bound="dates of the year 9999 (the last supported year)" domain="all year-less (month, day) bounds x every day of 9999 x all intermediate dates, outside the invalid-day region; callees replaced by their contracts"
#[cfg_attr(kani, kani::proof)]
#[cfg_attr(kani, kani::unwind(6))]
#[cfg_attr(kani, kani::stub(opening_hours_syntax::rules::day::DateOffset::apply, date_offset_apply_model))]
#[cfg_attr(kani, kani::stub(super::valid_ymd_after, valid_ymd_after_model))]
#[cfg_attr(kani, kani::stub(super::valid_ymd_before, valid_ymd_before_model))]
#[cfg_attr(kani, kani::stub(super::is_open_from_bounds, is_open_from_bounds_contract))]
#[cfg_attr(kani, kani::stub(super::next_change_from_bounds, next_change_from_bounds_contract))]
#[cfg_attr(verif_replay, test)]
fn dated_hint_fixed_no_year_9999() {
    fixed_no_year_hint_body::<9999>()
}


//@H props=ENGINE tier=quick kind=canary cap=300 expect=fail
#[cfg_attr(kani, kani::proof)]
#[cfg_attr(verif_replay, test)]
fn canary_dated_must_fail() {
    let d = any_date();
    vpost!("CANARY.dated.must_fail", d.year() != 2024 || d.ordinal() != 61);
}
