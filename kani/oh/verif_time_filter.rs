//! C01 ("time spans passing midnight continue on the following day", default sun-event times), C04:
//! contracts in assert form and harnesses for `opening-hours/src/filter/time_filter.rs` and the range helpers.
//! Child module of `filter::time_filter` (overlaid).
use super::*;
use crate::schedule::verif_schedule::{sort_model, t};
use opening_hours_syntax::rules::time::{Time, TimeEvent, TimeSelector, TimeSpan, VariableTime};
use opening_hours_syntax::verif_nd as nd;
use opening_hours_syntax::{vcover, vpost};

fn any_date() -> NaiveDate {
    crate::filter::date_filter::verif_date_filter::any_date()
}

fn any_fixed(max: u16) -> ExtendedTime {
    let m = nd::u16();
    nd::assume(m <= max);
    t(m)
}

fn any_event() -> TimeEvent {
    match nd::u8() % 4 {
        0 => TimeEvent::Dawn,
        1 => TimeEvent::Sunrise,
        2 => TimeEvent::Sunset,
        _ => TimeEvent::Dusk,
    }
}

fn event_minutes(e: TimeEvent) -> i32 {
    match e {
        TimeEvent::Dawn => 6 * 60,
        TimeEvent::Sunrise => 7 * 60,
        TimeEvent::Sunset => 19 * 60,
        TimeEvent::Dusk => 20 * 60,
    }
}

/// AST invariant of a time span (grammar: start hour <= 24, end up to 48:00; variable offsets are hh:mm
/// `hour_minutes`, i.e. |offset| <= 24:59)
fn any_time(max_fixed: u16) -> Time {
    if nd::bool() {
        Time::Fixed(any_fixed(max_fixed))
    } else {
        let offset = nd::i16();
        nd::assume(-1499 <= offset && offset <= 1499);
        Time::Variable(VariableTime { event: any_event(), offset })
    }
}

fn mins(t: ExtendedTime) -> i32 {
    t.mins_from_midnight() as i32
}

//@H props=C01,C11,C04 tier=quick kind=complete cap=600 domain="all four events x all dates (no coordinates)"
#[cfg_attr(kani, kani::proof)]
#[cfg_attr(verif_replay, test)]
fn default_event_times() {
    let c = Context::default();
    let e = any_event();
    let got: ExtendedTime = e.as_naive(&c, any_date());
    vpost!("C01.events.without_coordinates_dawn_sunrise_sunset_dusk_are_0600_0700_1900_2000", mins(got) == event_minutes(e));
    vcover!("events.dusk", e == TimeEvent::Dusk);
}

//@H props=C01,C04 tier=quick kind=complete cap=600 domain="all events x offsets -48:00..=+48:00"
#[cfg_attr(kani, kani::proof)]
#[cfg_attr(verif_replay, test)]
fn variable_time_is_event_plus_offset() {
    let c = Context::default();
    let e = any_event();
    let offset = nd::i16();
    let got = VariableTime { event: e, offset }.as_naive(&c, any_date());
    let sum = event_minutes(e) + offset as i32;
    if 0 <= sum && sum <= 2880 {
        vpost!("C01.variable_time.is_event_time_plus_offset", mins(got) == sum);
    } else {
        vpost!("C01.variable_time.out_of_range_falls_back_to_midnight", mins(got) == 0);
    }
    vcover!("variable_time.negative_offset", offset < 0 && mins(got) > 0);
}

fn timespan_body(start: Time, end: Time) {
    let c = Context::default();
    let span = TimeSpan { range: start..end, open_end: nd::bool(), repeats: None };
    let d = any_date();
    let (s, e) = (start.as_naive(&c, d), end.as_naive(&c, d));
    let r = span.as_naive(&c, d);
    vpost!("C01.timespan.starts_at_its_start_time", r.start == s);
    if s < e {
        vpost!("C01.timespan.ordinary_span_ends_at_its_end_time", r.end == e);
    } else if mins(e) + 24 * 60 <= 48 * 60 && mins(s) <= mins(e) + 24 * 60 {
        vpost!("C01.timespan.span_passing_midnight_continues_on_the_following_day", mins(r.end) == mins(e) + 24 * 60);
    }
    vpost!("C04.timespan.never_ends_before_it_starts_nor_after_4800", r.start <= r.end && mins(r.end) <= 48 * 60);
    vcover!("timespan.wraps", s >= e);
    vcover!("timespan.extended_end", mins(e) > 24 * 60 && s < e);
}

//@H props=C01,C04 tier=quick kind=complete cap=600 domain="fixed start 00:00..=24:00, fixed end 00:00..=48:00"
#[cfg_attr(kani, kani::proof)]
#[cfg_attr(verif_replay, test)]
fn timespan_fixed() {
    timespan_body(Time::Fixed(any_fixed(24 * 60)), Time::Fixed(any_fixed(48 * 60)))
}

//@H props=C01,C04 tier=quick kind=complete cap=900 domain="start and end fixed or event+offset (|offset| <= 24:59)"
#[cfg_attr(kani, kani::proof)]
#[cfg_attr(verif_replay, test)]
fn timespan_any() {
    timespan_body(any_time(24 * 60), any_time(48 * 60))
}

//@H props=C01,C04 tier=quick kind=complete cap=600 domain="all u16 quadruples x query point"
#[cfg_attr(kani, kani::proof)]
#[cfg_attr(verif_replay, test)]
fn range_intersection_is_set_intersection() {
    let (a, b, c, d, q) = (nd::u16(), nd::u16(), nd::u16(), nd::u16(), nd::u16());
    let r = crate::utils::range::range_intersection(a..b, c..d);
    let in_both = a <= q && q < b && c <= q && q < d;
    match &r {
        Some(r) => {
            vpost!("C01.range_intersection.is_exactly_the_common_points", (r.start <= q && q < r.end) == in_both);
            vpost!("C01.range_intersection.result_is_nonempty", r.start < r.end);
        }
        None => vpost!("C01.range_intersection.none_iff_no_common_point", !in_both),
    }
    vcover!("range_intersection.some", r.is_some());
    vcover!("range_intersection.none", r.is_none());
}

fn covered(rs: &[Range<ExtendedTime>], q: ExtendedTime) -> bool {
    let mut i = 0;
    while i < rs.len() {
        if rs[i].start <= q && q < rs[i].end {
            return true;
        }
        i += 1;
    }
    false
}

fn sorted_disjoint_nontouching(rs: &[Range<ExtendedTime>]) -> bool {
    let mut i = 0;
    while i < rs.len() {
        if !(rs[i].start < rs[i].end) || (i + 1 < rs.len() && !(rs[i].end < rs[i + 1].start)) {
            return false;
        }
        i += 1;
    }
    true
}

fn selector_body<const N: usize>() {
    let c = Context::default();
    let mut spans = Vec::new();
    let mut i = 0;
    while i < N {
        spans.push(TimeSpan::fixed_range(any_fixed(24 * 60), any_fixed(48 * 60)));
        i += 1;
    }
    let sel = TimeSelector { time: spans };
    let d = any_date();
    let q = any_fixed(24 * 60 - 1);
    // reference: minute q of day D is covered iff some span covers q; minute q of day D+1 is covered by
    // D's selector iff some span covers q + 24:00
    let mut today = false;
    let mut tomorrow = false;
    let mut i = 0;
    while i < N {
        let r = sel.time[i].as_naive(&c, d);
        if r.start <= q && q < r.end {
            today = true;
        }
        let q24 = q.add_hours(24).unwrap();
        if r.start <= q24 && q24 < r.end {
            tomorrow = true;
        }
        i += 1;
    }
    let at: Vec<_> = time_selector_intervals_at(&c, &sel, d).collect();
    let next: Vec<_> = time_selector_intervals_at_next_day(&c, &sel, d).collect();
    vpost!("C01.time_selector.minute_is_open_today_iff_some_span_covers_it", covered(&at, q) == today);
    vpost!("C01.time_selector.span_passing_midnight_covers_the_early_minutes_of_the_next_day", covered(&next, q) == tomorrow);
    vpost!("C01.time_selector.intervals_sorted_disjoint_within_the_day", sorted_disjoint_nontouching(&at)
        && sorted_disjoint_nontouching(&next)
        && at.iter().all(|r| r.end <= t(24 * 60)) && next.iter().all(|r| r.end <= t(24 * 60)));
    vcover!("time_selector.spill", tomorrow);
    vcover!("time_selector.merged", N < 2 || at.len() == 1);
    vcover!("time_selector.two_intervals", N < 2 || at.len() == 2);
}

//@H props=C01,C04 tier=quick kind=bounded cap=1500 mem=medium bound="1 time span (fixed times)" domain="start 00:00..=24:00, end 00:00..=48:00, query minute 00:00..23:59"
#[cfg_attr(kani, kani::proof)]
#[cfg_attr(kani, kani::unwind(4))]
#[cfg_attr(kani, kani::stub(core::slice::sort::unstable::sort, sort_model))]
#[cfg_attr(verif_replay, test)]
fn time_selector_intervals_1() {
    selector_body::<1>()
}

//@H props=C01,C04 tier=thorough kind=bounded cap=3000 mem=medium bound="2 time spans (fixed times)" domain="start 00:00..=24:00, end 00:00..=48:00, query minute 00:00..23:59"
#[cfg_attr(kani, kani::proof)]
#[cfg_attr(kani, kani::unwind(5))]
#[cfg_attr(kani, kani::stub(core::slice::sort::unstable::sort, sort_model))]
#[cfg_attr(verif_replay, test)]
fn time_selector_intervals_2() {
    selector_body::<2>()
}
