//! C11, clause "a coordinate pair is accepted iff latitude is in [-90, 90], longitude in [-180, 180] and neither is
//! NaN": contract in assert form for `Coordinates::new` over ALL pairs of f64 bit patterns (NaNs of every payload,
//! infinities, negative zero, subnormals), and the accessors return what was accepted.  The real
//! `sunrise::Coordinates::new` (dependency) is executed, not specified.  Child module of
//! `localization::coordinates` (overlaid).
use super::*;
use opening_hours_syntax::verif_nd as nd;
use opening_hours_syntax::{vcover, vpost};

fn any_f64() -> f64 {
    f64::from_bits(nd::u64())
}

//@H props=C11,C04 tier=quick kind=complete cap=300 domain="all pairs of f64 bit patterns (2^128)"
#[cfg_attr(kani, kani::proof)]
#[cfg_attr(verif_replay, test)]
fn coordinates_new_accepts_exactly_the_valid_pairs() {
    let (lat, lon) = (any_f64(), any_f64());
    let got = Coordinates::new(lat, lon);
    let valid = !lat.is_nan() && !lon.is_nan() && -90.0 <= lat && lat <= 90.0 && -180.0 <= lon && lon <= 180.0;
    vpost!("C11.coordinates.accepted_iff_latitude_and_longitude_in_range_and_not_nan", got.is_some() == valid);
    if let Some(c) = got {
        vpost!("C11.coordinates.accessors_return_the_accepted_pair", c.lat().to_bits() == lat.to_bits() && c.lon().to_bits() == lon.to_bits());
    }
    vcover!("coordinates.pole_and_antimeridian", got.is_some() && lat == 90.0 && lon == -180.0);
    vcover!("coordinates.nan_rejected", got.is_none() && lat.is_nan());
    vcover!("coordinates.just_out_of_range", got.is_none() && lat > 90.0 && lat < 90.000001);
    vcover!("coordinates.infinite_longitude", got.is_none() && lon.is_infinite() && !lat.is_nan() && lat.abs() <= 90.0);
}

//@H props=ENGINE tier=quick kind=canary cap=120 expect=fail
#[cfg_attr(kani, kani::proof)]
#[cfg_attr(verif_replay, test)]
fn canary_coordinates_must_fail() {
    let x = any_f64();
    vpost!("CANARY.coordinates.must_fail", x != 48.8566);
}
