//! C14 / C17 (and the Schedule part of C04): contracts (assert form) and harnesses for `Schedule`.
//! Child module of `opening_hours::schedule` (overlaid): `Schedule::inner` and `Schedule::insert` are visible.
//!
//! Abstract view of a schedule: the partial function minute -> kind (`kind_at`), plus the type invariant `wf`
//! (ranges non-empty, increasing, disjoint).  Every postcondition is stated over the whole view through one
//! symbolic query minute `q` (all 2 881 values 00:00..=48:00), never only over the touched range.
//!
//! Bounds: the number of ranges per operand is concrete per harness (const generics); every range bound is
//! symbolic.  Trusted models (listed in the evidence): `core::slice::sort::unstable::sort` (the common entry
//! point of sort_unstable*, replaced by an insertion sort through the caller's comparison) and, in the
//! kind/range harnesses, the comment `union` (comments never influence control flow in schedule.rs; the real
//! union is verified on its own under C20).
use super::*;
use opening_hours_syntax::verif_nd as nd;
use opening_hours_syntax::{vcover, vpost};

// ---- trusted models ------------------------------------------------------------------------------

/// insertion sort through the caller's `is_less`: model of `core::slice::sort::unstable::sort`
pub(crate) fn sort_model<T, F: FnMut(&T, &T) -> bool>(v: &mut [T], is_less: &mut F) {
    let mut i = 1;
    while i < v.len() {
        let mut j = i;
        while j > 0 && is_less(&v[j], &v[j - 1]) {
            v.swap(j, j - 1);
            j -= 1;
        }
        i += 1;
    }
}

/// model of `UniqueSortedVec::union` for harnesses whose comment sets are all empty: the left operand
pub(crate) fn union_left_model<T: Ord>(a: UniqueSortedVec<T>, b: UniqueSortedVec<T>) -> UniqueSortedVec<T> {
    core::mem::forget(b);
    a
}

// ---- view and invariant ----------------------------------------------------------------------------

pub(crate) fn t(m: u16) -> ExtendedTime {
    ExtendedTime::from_mins_from_midnight(m).unwrap()
}

fn any_time(max: u16) -> ExtendedTime {
    let m = nd::u16();
    nd::assume(m <= max);
    t(m)
}

fn any_kind() -> RuleKind {
    match nd::u8() % 3 {
        0 => RuleKind::Open,
        1 => RuleKind::Closed,
        _ => RuleKind::Unknown,
    }
}

/// ranges non-empty, increasing and disjoint
pub(crate) fn wf(s: &Schedule) -> bool {
    let mut i = 0;
    while i < s.inner.len() {
        if !(s.inner[i].range.start < s.inner[i].range.end) {
            return false;
        }
        if i + 1 < s.inner.len() && !(s.inner[i].range.end <= s.inner[i + 1].range.start) {
            return false;
        }
        i += 1;
    }
    true
}

/// the kind the schedule gives to minute q (None = not covered by any range)
pub(crate) fn kind_at(s: &Schedule, q: ExtendedTime) -> Option<RuleKind> {
    let mut i = 0;
    while i < s.inner.len() {
        if s.inner[i].range.start <= q && q < s.inner[i].range.end {
            return Some(s.inner[i].kind);
        }
        i += 1;
    }
    None
}

fn no_comments() -> UniqueSortedVec<Arc<str>> {
    UniqueSortedVec::new()
}

// ---- from_ranges -------------------------------------------------------------------------------------

fn from_ranges_n<const N: usize>() {
    // arbitrary input ranges: overlapping, nested, adjacent, empty or inverted, anywhere in 00:00..=48:00
    let mut input: [Range<ExtendedTime>; N] = core::array::from_fn(|_| t(0)..t(0));
    let mut i = 0;
    while i < N {
        input[i] = any_time(48 * 60)..any_time(48 * 60);
        i += 1;
    }
    let kind = any_kind();
    let q = any_time(48 * 60);
    let mut in_input = false;
    let mut i = 0;
    while i < N {
        if input[i].start <= q && q < input[i].end {
            in_input = true;
        }
        i += 1;
    }
    let out = Schedule::from_ranges(input.clone(), kind, &no_comments());
    vpost!("C14.from_ranges.ranges_nonempty_increasing_disjoint", wf(&out));
    vpost!("C14.from_ranges.covers_exactly_the_union_of_its_inputs", kind_at(&out, q).is_some() == in_input);
    vpost!("C14.from_ranges.every_range_has_the_given_kind", kind_at(&out, q).map_or(true, |k| k == kind));
    vpost!("C14.from_ranges.no_more_ranges_than_inputs", out.inner.len() <= N);
    vcover!("from_ranges.merged", N < 2 || out.inner.len() < N);
    vcover!("from_ranges.kept_apart", N < 2 || out.inner.len() == N);
    vcover!("from_ranges.nested_input", N < 2 || (input[0].start < input[1].start && input[1].end < input[0].end));
    vcover!("from_ranges.unsorted_input", N < 2 || input[1].start < input[0].start);
    vcover!("from_ranges.empty_input_range", N < 1 || input[0].start >= input[0].end);
}

//@H props=C14,C04 tier=quick kind=bounded cap=900 bound="1 input range" domain="bounds anywhere in 00:00..=48:00, all kinds, query minute 00:00..=48:00" mem=medium
#[cfg_attr(kani, kani::proof)]
#[cfg_attr(kani, kani::unwind(4))]
#[cfg_attr(kani, kani::stub(core::slice::sort::unstable::sort, sort_model))]
#[cfg_attr(kani, kani::stub(opening_hours_syntax::sorted_vec::UniqueSortedVec::union, union_left_model))]
#[cfg_attr(verif_replay, test)]
fn sched_from_ranges_1() {
    from_ranges_n::<1>()
}

//@H props=C14,C04 tier=quick kind=bounded cap=1500 bound="2 input ranges" domain="bounds anywhere in 00:00..=48:00, all kinds, query minute 00:00..=48:00" mem=medium
#[cfg_attr(kani, kani::proof)]
#[cfg_attr(kani, kani::unwind(4))]
#[cfg_attr(kani, kani::stub(core::slice::sort::unstable::sort, sort_model))]
#[cfg_attr(kani, kani::stub(opening_hours_syntax::sorted_vec::UniqueSortedVec::union, union_left_model))]
#[cfg_attr(verif_replay, test)]
fn sched_from_ranges_2() {
    from_ranges_n::<2>()
}

//@H props=C14,C04 tier=deep kind=bounded cap=3600 bound="3 input ranges" domain="bounds anywhere in 00:00..=48:00, all kinds, query minute 00:00..=48:00" mem=heavy
#[cfg_attr(kani, kani::proof)]
#[cfg_attr(kani, kani::unwind(5))]
#[cfg_attr(kani, kani::stub(core::slice::sort::unstable::sort, sort_model))]
#[cfg_attr(kani, kani::stub(opening_hours_syntax::sorted_vec::UniqueSortedVec::union, union_left_model))]
#[cfg_attr(verif_replay, test)]
fn sched_from_ranges_3() {
    from_ranges_n::<3>()
}

// ---- symbolic schedules ------------------------------------------------------------------------------

/// any well-formed schedule with exactly N ranges (bounds anywhere in 00:00..=48:00, kinds symbolic, no comments)
fn any_schedule<const N: usize>() -> Schedule {
    let mut inner = Vec::new();
    let mut i = 0;
    while i < N {
        let range = any_time(48 * 60)..any_time(48 * 60);
        inner.push(TimeRange { range, kind: any_kind(), comments: no_comments() });
        i += 1;
    }
    let s = Schedule { inner };
    nd::assume(wf(&s));
    s
}

fn ranges_of<const N: usize>(s: &Schedule) -> [(ExtendedTime, ExtendedTime, RuleKind); N] {
    core::array::from_fn(|i| (s.inner[i].range.start, s.inner[i].range.end, s.inner[i].kind))
}

fn kind_in<const N: usize>(rs: &[(ExtendedTime, ExtendedTime, RuleKind); N], q: ExtendedTime) -> Option<RuleKind> {
    let mut i = 0;
    while i < N {
        if rs[i].0 <= q && q < rs[i].1 {
            return Some(rs[i].2);
        }
        i += 1;
    }
    None
}

// ---- insert (private; contract: requires wf(self) and a non-empty inserted range) ------------------------

fn insert_n<const N: usize>() {
    let s = any_schedule::<N>();
    let old = ranges_of::<N>(&s);
    let (start, end) = (any_time(48 * 60), any_time(48 * 60));
    nd::assume(start < end);
    let kind = any_kind();
    let q = any_time(48 * 60);
    let r = s.insert(TimeRange { range: start..end, kind, comments: no_comments() });
    vpost!("C14.insert.keeps_ranges_nonempty_increasing_disjoint", wf(&r));
    let expect = if start <= q && q < end { Some(kind) } else { kind_in(&old, q) };
    vpost!("C14.insert.inserted_range_wins_earlier_ranges_show_through_elsewhere", kind_at(&r, q) == expect);
    vpost!("C14.insert.at_most_two_more_ranges", r.inner.len() <= N + 2);
    vcover!("insert.splits_a_range", N < 1 || r.inner.len() == N + 2);
    vcover!("insert.swallows_a_range", N < 1 || r.inner.len() == 1);
    vcover!("insert.merges_same_kind_neighbour", N < 1 || (r.inner.len() == N && old[0].1 == start && old[0].2 == kind));
    vcover!("insert.trims_left_neighbour", N < 1 || (old[0].0 < start && start < old[0].1 && old[0].1 < end));
}

//@H props=C14,C04 tier=quick kind=bounded cap=900 mem=medium bound="0 existing ranges + 1 inserted" domain="bounds anywhere in 00:00..=48:00, all kinds, query minute 00:00..=48:00"
#[cfg_attr(kani, kani::proof)]
#[cfg_attr(kani, kani::unwind(4))]
#[cfg_attr(kani, kani::stub(opening_hours_syntax::sorted_vec::UniqueSortedVec::union, union_left_model))]
#[cfg_attr(verif_replay, test)]
fn sched_insert_0() {
    insert_n::<0>()
}

//@H props=C14,C04 tier=off kind=bounded cap=1800 mem=heavy note="out of reach: CBMC needs > 60 GB (drop/clone glue of Vec<Arc<str>> on symbolic heap contents)" bound="1 existing range + 1 inserted" domain="bounds anywhere in 00:00..=48:00, all kinds, query minute 00:00..=48:00"
#[cfg_attr(kani, kani::proof)]
#[cfg_attr(kani, kani::unwind(4))]
#[cfg_attr(kani, kani::stub(opening_hours_syntax::sorted_vec::UniqueSortedVec::union, union_left_model))]
#[cfg_attr(verif_replay, test)]
fn sched_insert_1() {
    insert_n::<1>()
}

//@H props=C14,C04 tier=off kind=bounded cap=3600 mem=heavy note="out of reach" bound="2 existing ranges + 1 inserted" domain="bounds anywhere in 00:00..=48:00, all kinds, query minute 00:00..=48:00"
#[cfg_attr(kani, kani::proof)]
#[cfg_attr(kani, kani::unwind(5))]
#[cfg_attr(kani, kani::stub(opening_hours_syntax::sorted_vec::UniqueSortedVec::union, union_left_model))]
#[cfg_attr(verif_replay, test)]
fn sched_insert_2() {
    insert_n::<2>()
}

/// model of the derived `<TimeRange as std::clone::Clone>::clone` for harnesses whose comment sets are all empty: same range and
/// kind, a fresh empty comment set (what the derive produces for an empty set), without the `Arc` clone glue
pub(crate) fn timerange_clone_model(tr: &TimeRange) -> TimeRange {
    TimeRange { range: tr.range.start..tr.range.end, kind: tr.kind, comments: UniqueSortedVec::new() }
}

//@H props=C14,C04 tier=deep kind=bounded cap=3600 mem=heavy bound="1 existing range + 1 inserted" domain="bounds anywhere in 00:00..=48:00, all kinds, query minute 00:00..=48:00"
#[cfg_attr(kani, kani::proof)]
#[cfg_attr(kani, kani::unwind(4))]
#[cfg_attr(kani, kani::stub(opening_hours_syntax::sorted_vec::UniqueSortedVec::union, union_left_model))]
#[cfg_attr(kani, kani::stub(<TimeRange as std::clone::Clone>::clone, timerange_clone_model))]
#[cfg_attr(verif_replay, test)]
fn sched_insert_1c() {
    insert_n::<1>()
}

// ---- addition ---------------------------------------------------------------------------------------------

fn addition_nm<const N: usize, const M: usize>() {
    let a = any_schedule::<N>();
    let b = any_schedule::<M>();
    let (ra, rb) = (ranges_of::<N>(&a), ranges_of::<M>(&b));
    let q = any_time(48 * 60);
    let r = a.addition(b);
    vpost!("C14.addition.keeps_ranges_nonempty_increasing_disjoint", wf(&r));
    vpost!(
        "C14.addition.most_recently_added_wins_earlier_shows_through_elsewhere",
        kind_at(&r, q) == kind_in(&rb, q).or(kind_in(&ra, q))
    );
    vcover!("addition.overlap", N < 1 || M < 1 || (ra[0].0 < rb[0].1 && rb[0].0 < ra[0].1));
    vcover!("addition.earlier_shows_through", N < 1 || M < 1 || (kind_in(&rb, q).is_none() && kind_in(&ra, q).is_some()));
}

//@H props=C14,C04 tier=quick kind=bounded cap=900 mem=medium bound="operands of 1 and 0 ranges" domain="bounds anywhere in 00:00..=48:00, all kinds, query minute 00:00..=48:00"
#[cfg_attr(kani, kani::proof)]
#[cfg_attr(kani, kani::unwind(4))]
#[cfg_attr(kani, kani::stub(opening_hours_syntax::sorted_vec::UniqueSortedVec::union, union_left_model))]
#[cfg_attr(verif_replay, test)]
fn sched_addition_1_0() {
    addition_nm::<1, 0>()
}

//@H props=C14,C04 tier=off kind=bounded cap=1800 mem=heavy note="out of reach: CBMC needs > 60 GB" bound="operands of 1 and 1 ranges" domain="bounds anywhere in 00:00..=48:00, all kinds, query minute 00:00..=48:00"
#[cfg_attr(kani, kani::proof)]
#[cfg_attr(kani, kani::unwind(4))]
#[cfg_attr(kani, kani::stub(opening_hours_syntax::sorted_vec::UniqueSortedVec::union, union_left_model))]
#[cfg_attr(verif_replay, test)]
fn sched_addition_1_1() {
    addition_nm::<1, 1>()
}

//@H props=C14,C04 tier=off kind=bounded cap=3600 mem=heavy note="out of reach" bound="operands of 1 and 2 ranges" domain="bounds anywhere in 00:00..=48:00, all kinds, query minute 00:00..=48:00"
#[cfg_attr(kani, kani::proof)]
#[cfg_attr(kani, kani::unwind(5))]
#[cfg_attr(kani, kani::stub(opening_hours_syntax::sorted_vec::UniqueSortedVec::union, union_left_model))]
#[cfg_attr(verif_replay, test)]
fn sched_addition_1_2() {
    addition_nm::<1, 2>()
}

// ---- iteration ----------------------------------------------------------------------------------------------

fn iter_n<const N: usize>() {
    let s = any_schedule::<N>();
    let rs = ranges_of::<N>(&s);
    let q = any_time(24 * 60 - 1);
    let mut it = s.into_iter();
    let mut prev_end = t(0);
    let mut prev_kind: Option<RuleKind> = None;
    let mut covered_q = false;
    let mut k = 0;
    // a schedule of N ranges tiles the day with at most 2N + 1 items
    while k < 2 * N + 2 {
        match it.next() {
            None => break,
            Some(item) => {
                vpost!("C14.iter.gap_free_tiling_starting_at_midnight", item.range.start == prev_end);
                vpost!("C14.iter.every_item_is_nonempty", item.range.start < item.range.end);
                vpost!("C14.iter.adjacent_items_have_different_kinds", prev_kind != Some(item.kind));
                if item.range.start <= q && q < item.range.end {
                    covered_q = true;
                    vpost!(
                        "C14.iter.item_kind_is_schedule_kind_closed_in_holes",
                        item.kind == kind_in(&rs, q).unwrap_or(RuleKind::Closed)
                    );
                }
                prev_end = item.range.end;
                prev_kind = Some(item.kind);
            }
        }
        k += 1;
    }
    vpost!("C14.iter.ends_after_at_most_2n_plus_1_items", k <= 2 * N + 1 && it.next().is_none());
    vpost!("C14.iter.covers_the_whole_day", prev_end >= t(24 * 60) && covered_q);
    vpost!("C14.iter.ends_at_2400_when_ranges_do", N > 0 && rs[N - (N > 0) as usize].1 > t(24 * 60) || prev_end == t(24 * 60));
    vcover!("iter.max_items", k == 2 * N + 1);
    vcover!("iter.closed_range_then_gap_then_other_kind",
        N < 2 || (rs[0].2 == RuleKind::Closed && rs[0].1 < rs[1].0 && rs[1].2 != RuleKind::Closed));
    vcover!("iter.adjacent_same_kind_ranges", N < 2 || (rs[0].1 == rs[1].0 && rs[0].2 == rs[1].2));
}

//@H props=C14,C04 tier=quick kind=bounded cap=900 mem=medium bound="0 ranges" domain="query minute 00:00..23:59"
#[cfg_attr(kani, kani::proof)]
#[cfg_attr(kani, kani::unwind(4))]
#[cfg_attr(kani, kani::stub(opening_hours_syntax::sorted_vec::UniqueSortedVec::union, union_left_model))]
#[cfg_attr(verif_replay, test)]
fn sched_iter_0() {
    iter_n::<0>()
}

//@H props=C14,C04 tier=quick kind=bounded cap=1800 mem=medium bound="1 range" domain="bounds anywhere in 00:00..=48:00, all kinds, query minute 00:00..23:59"
#[cfg_attr(kani, kani::proof)]
#[cfg_attr(kani, kani::unwind(5))]
#[cfg_attr(kani, kani::stub(opening_hours_syntax::sorted_vec::UniqueSortedVec::union, union_left_model))]
#[cfg_attr(verif_replay, test)]
fn sched_iter_1() {
    iter_n::<1>()
}

//@H tier_C04=thorough props=C14,C04 tier=quick kind=bounded cap=2400 mem=medium bound="2 ranges" domain="bounds anywhere in 00:00..=48:00, all kinds, query minute 00:00..23:59"
#[cfg_attr(kani, kani::proof)]
#[cfg_attr(kani, kani::unwind(7))]
#[cfg_attr(kani, kani::stub(opening_hours_syntax::sorted_vec::UniqueSortedVec::union, union_left_model))]
#[cfg_attr(verif_replay, test)]
fn sched_iter_2() {
    iter_n::<2>()
}

// ---- C17: comments (real `Arc<str>` sets, real union) -----------------------------------------------------------------

fn one_comment() -> UniqueSortedVec<Arc<str>> {
    vec![Arc::<str>::from("rule comment")].into()
}

fn same_comments(a: &UniqueSortedVec<Arc<str>>, b: &UniqueSortedVec<Arc<str>>) -> bool {
    a.len() == b.len() && (a.is_empty() || *a[0] == *b[0])
}

//@H props=C17,C04 tier=off kind=bounded cap=1800 mem=heavy note="out of reach: CBMC exceeds 24 GB on one range with one Arc<str> comment" bound="1 input range, comment set of 1 string" domain="bounds anywhere in 00:00..=48:00, all kinds"
#[cfg_attr(kani, kani::proof)]
#[cfg_attr(kani, kani::unwind(4))]
#[cfg_attr(kani, kani::stub(core::slice::sort::unstable::sort, sort_model))]
#[cfg_attr(verif_replay, test)]
fn sched_comments_from_ranges_1() {
    let comments = one_comment();
    let r = any_time(48 * 60)..any_time(48 * 60);
    let out = Schedule::from_ranges([r.clone()], any_kind(), &comments);
    vpost!(
        "C17.from_ranges.every_range_carries_exactly_the_given_comments",
        out.inner.iter().all(|tr| same_comments(&tr.comments, &comments))
    );
    vpost!("C17.from_ranges.one_range_iff_input_nonempty", out.inner.len() == (r.start < r.end) as usize);
    vcover!("comments_from_ranges.nonempty", out.inner.len() == 1);
}

//@H props=C17,C04 tier=off kind=bounded cap=2400 mem=heavy note="out of reach: CBMC runs out of memory" bound="schedule of 1 range with a comment set of 1 string" domain="bounds anywhere in 00:00..=48:00, all kinds, query minute 00:00..23:59"
#[cfg_attr(kani, kani::proof)]
#[cfg_attr(kani, kani::unwind(5))]
#[cfg_attr(verif_replay, test)]
fn sched_comments_iter_1() {
    let comments = one_comment();
    let (start, end) = (any_time(48 * 60), any_time(48 * 60));
    nd::assume(start < end);
    let kind = any_kind();
    let s = Schedule { inner: vec![TimeRange { range: start..end, kind, comments: comments.clone() }] };
    let q = any_time(24 * 60 - 1);
    let mut k = 0;
    let mut it = s.into_iter();
    while k < 4 {
        match it.next() {
            None => break,
            Some(item) => {
                if item.range.start <= q && q < item.range.end {
                    if start <= q && q < end {
                        vpost!(
                            "C17.iter.period_of_one_rule_carries_exactly_that_rules_comments",
                            same_comments(&item.comments, &comments)
                        );
                    } else if kind != RuleKind::Closed || item.range.end <= start || item.range.start >= end {
                        vpost!("C17.iter.holes_carry_no_comments", item.comments.is_empty());
                    }
                }
            }
        }
        k += 1;
    }
    vcover!("comments_iter.three_items", k == 3);
}

//@H props=ENGINE tier=quick kind=canary cap=300 expect=fail
#[cfg_attr(kani, kani::proof)]
#[cfg_attr(verif_replay, test)]
fn canary_schedule_must_fail() {
    let q = any_time(48 * 60);
    vpost!("CANARY.schedule.must_fail", q.mins_from_midnight() != 777);
}
