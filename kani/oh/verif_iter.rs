//! U-iter: the interval iterator (`TimeDomainIterator::{new, next, consume_until_next_kind}`, `iter_range_naive`,
//! `iter_range`, `iter_from`, `state`, `next_change`) verified **against the contracts of its two callees**
//! instead of their bodies (modular verification: caller against callee contract).
//!
//! Child module of `opening_hours` (overlaid): private items are visible.
//!
//! Callee contracts (each is a *contract model*: it answers with any value the contract allows):
//!  * `OpeningHours::schedule_at(d)` returns a well-formed schedule inside 00:00..=24:00 that depends on `d` only
//!    and is empty outside 1900-01-01..=9999-12-31 (the C08 guard, discharged by
//!    `schedule_at_is_empty_outside_supported_range`).  The model owns a ghost table of `DAYS` consecutive days
//!    (first day symbolic), each with at most one symbolic range; every other day is empty.
//!  * `OpeningHours::next_change_hint(d)`: before 1900 it is 1900-01-01 (discharged by
//!    `next_change_hint_composition`); otherwise `None`, or a date `h` with `d < h <= 10000-01-01` such that
//!    every day strictly between `d` and `h` has one single kind all day long, the kind `d` ends with.
//!    This is the statement the iterator needs from the hint; that the real composition of the per-selector
//!    hints satisfies it is **assumed here** (the per-selector lower-bound contracts are C02's own obligations).
use super::*;
use crate::schedule::TimeRange;
use chrono::Datelike;
use opening_hours_syntax::sorted_vec::UniqueSortedVec;
use opening_hours_syntax::verif_nd as nd;
use opening_hours_syntax::{vcover, vpost};

pub(crate) const DAYS: usize = 2;

// ---- ghost table -----------------------------------------------------------------------------------------------

/// days from CE of table day 0
static mut BASE: i32 = 0;
/// the table days as dates (None: not representable / outside the supported range)
static mut TAB_DATES: [Option<NaiveDate>; DAYS] = [None; DAYS];
/// per table day: (start minute, end minute, kind code); start >= end means "no range"
static mut TAB: [(u16, u16, u8); DAYS] = [(0, 0, 0); DAYS];

fn base() -> i32 {
    unsafe { BASE }
}

fn tab(i: usize) -> (u16, u16, u8) {
    unsafe { TAB[i] }
}

fn kind_of(code: u8) -> RuleKind {
    match code % 3 {
        0 => RuleKind::Open,
        1 => RuleKind::Closed,
        _ => RuleKind::Unknown,
    }
}

fn t(m: u16) -> ExtendedTime {
    ExtendedTime::from_mins_from_midnight(m).unwrap()
}

fn in_supported_range(date: NaiveDate) -> bool {
    date >= DATE_START.date() && date < DATE_END.date()
}

fn tab_date(i: usize) -> Option<NaiveDate> {
    unsafe { TAB_DATES[i] }
}

/// index of `date` in the table (comparisons only: no calendar arithmetic in the models)
fn tab_index(date: NaiveDate) -> Option<usize> {
    let mut i = 0;
    while i < DAYS {
        if tab_date(i) == Some(date) {
            return Some(i);
        }
        i += 1;
    }
    None
}

/// the range of day `i`, if it has one
fn tab_range(i: usize) -> Option<(u16, u16, RuleKind)> {
    let (s, e, k) = tab(i);
    if s < e {
        Some((s, e, kind_of(k)))
    } else {
        None
    }
}

// ---- the specification: state of an instant according to the daily schedules ---------------------------------------

/// kind the daily schedule of `date` gives to minute `m` (closed in holes and on days without a schedule)
fn spec_kind_at(date: NaiveDate, m: u16) -> RuleKind {
    match tab_index(date).and_then(tab_range) {
        Some((s, e, k)) if s <= m && m < e => k,
        _ => RuleKind::Closed,
    }
}

fn spec_state(dt: NaiveDateTime) -> RuleKind {
    use chrono::Timelike;
    spec_kind_at(dt.date(), (dt.time().hour() * 60 + dt.time().minute()) as u16)
}

/// the kind the day ends with
fn last_kind(date: NaiveDate) -> RuleKind {
    spec_kind_at(date, 24 * 60 - 1)
}

/// the day has one single kind from 00:00 to 24:00
fn uniform(date: NaiveDate) -> Option<RuleKind> {
    match tab_index(date).and_then(tab_range) {
        None => Some(RuleKind::Closed),
        Some((_, _, RuleKind::Closed)) => Some(RuleKind::Closed),
        Some((0, e, k)) if e == 24 * 60 => Some(k),
        Some(_) => None,
    }
}

// ---- contract models of the callees ------------------------------------------------------------------------------

pub(crate) fn schedule_at_model<L: Localize>(_oh: &OpeningHours<L>, date: NaiveDate) -> Schedule {
    match tab_index(date).and_then(tab_range) {
        Some((s, e, k)) => Schedule { inner: vec![TimeRange::new(t(s)..t(e), k, UniqueSortedVec::new())] },
        None => Schedule::default(),
    }
}

#[cfg(kani)]
pub(crate) fn hint_model<L: Localize>(_oh: &OpeningHours<L>, date: NaiveDate) -> Option<NaiveDate> {
    if date < DATE_START.date() {
        return Some(DATE_START.date());
    }
    if kani::any() {
        return None;
    }
    // candidates: the next day, any later table day, the day after the table, the end of the supported range
    let c: u8 = kani::any();
    let h = if c == 0 {
        date.succ_opt()
    } else if (c as usize) <= DAYS {
        tab_date(c as usize - 1)
    } else if c as usize == DAYS + 1 {
        tab_date(DAYS - 1).and_then(|d| d.succ_opt())
    } else {
        Some(DATE_END.date())
    };
    kani::assume(matches!(h, Some(h) if h > date && h <= DATE_END.date()));
    let h = h.unwrap();
    // contract: every day strictly in between has the single kind the day `date` ends with
    let k = last_kind(date);
    let mut table_days_between = 0;
    let mut i = 0;
    while i < DAYS {
        if let Some(di) = tab_date(i) {
            if date < di && di < h {
                kani::assume(uniform(di) == Some(k));
                table_days_between += 1;
            }
        }
        i += 1;
    }
    // days outside the table are closed all day: is there such a day strictly between `date` and `h`?
    let next = date.succ_opt();
    let gap_outside_table = match next {
        Some(n) if n < h => {
            // the days between are exactly table days iff the first one is a table day and they are consecutive up to h
            let first_is_table = tab_index(n).is_some();
            let last_before_h = h.pred_opt().map_or(false, |p| tab_index(p).is_some());
            !(first_is_table && last_before_h && table_days_between >= 1
                && tab_index(n).map_or(false, |a| tab_index(h.pred_opt().unwrap()).map_or(false, |b| b + 1 - a == table_days_between)))
        }
        _ => false,
    };
    if gap_outside_table {
        kani::assume(k == RuleKind::Closed);
    }
    Some(h)
}

#[cfg(not(kani))]
pub(crate) fn hint_model<L: Localize>(_oh: &OpeningHours<L>, date: NaiveDate) -> Option<NaiveDate> {
    if date < DATE_START.date() {
        return Some(DATE_START.date());
    }
    None
}

/// model of the derived `<TimeRange as Clone>::clone` when every comment set is empty (as in these harnesses)
pub(crate) fn timerange_clone_model(tr: &TimeRange) -> TimeRange {
    TimeRange { range: tr.range.start..tr.range.end, kind: tr.kind, comments: UniqueSortedVec::new() }
}

pub(crate) fn union_left_model<T: Ord>(a: UniqueSortedVec<T>, b: UniqueSortedVec<T>) -> UniqueSortedVec<T> {
    core::mem::forget(b);
    a
}

// ---- harness inputs ------------------------------------------------------------------------------------------------

fn setup_table(base_days: i32) {
    unsafe { BASE = base_days };
    let mut i = 0;
    while i < DAYS {
        let di = NaiveDate::from_num_days_from_ce_opt(base_days + i as i32).filter(|d| in_supported_range(*d));
        unsafe { TAB_DATES[i] = di };
        let s = nd::u16();
        let e = nd::u16();
        let k = nd::u8();
        nd::assume(s <= 24 * 60 && e <= 24 * 60 && k < 3);
        unsafe { TAB[i] = (s, e, k) };
        i += 1;
    }
}

/// an instant (whole minutes) from two days before the table to two days after it
fn any_instant_near_table() -> NaiveDateTime {
    let off = nd::i8();
    nd::assume(-2 <= off && off <= DAYS as i8 + 1);
    let m = nd::u16();
    nd::assume(m < 24 * 60);
    let d = NaiveDate::from_num_days_from_ce_opt(base() + off as i32);
    nd::assume(d.is_some());
    NaiveDateTime::new(d.unwrap(), NaiveTime::from_hms_opt(m as u32 / 60, m as u32 % 60, 0).unwrap())
}

fn oh_without_rules() -> OpeningHours {
    OpeningHours { expr: Arc::new(OpeningHoursExpression { rules: Vec::new() }), ctx: Context::default() }
}

fn fixed_base() -> i32 {
    NaiveDate::from_ymd_opt(2024, 2, 27).unwrap().num_days_from_ce()
}

//@H unwindset="drop_glue::<\\[std::sync::Arc<str>\\]>=1" props=C03,C02,C04 tier=deep kind=bounded cap=3600 mem=heavy bound="2 consecutive days (2024-02-27..28) of at most 1 range each, all other days closed; callees replaced by contract models" domain="all range bounds and kinds; instant within 2 days of the table"
#[cfg_attr(kani, kani::proof)]
#[cfg_attr(kani, kani::unwind(5))]
#[cfg_attr(kani, kani::stub(<TimeRange as std::clone::Clone>::clone, timerange_clone_model))]
#[cfg_attr(kani, kani::stub(OpeningHours::schedule_at, schedule_at_model))]
#[cfg_attr(kani, kani::stub(OpeningHours::next_change_hint, hint_model))]
#[cfg_attr(kani, kani::stub(opening_hours_syntax::sorted_vec::UniqueSortedVec::union, union_left_model))]
#[cfg_attr(verif_replay, test)]
fn iter_state_fixed_base() {
    setup_table(fixed_base());
    let at = any_instant_near_table();
    let oh = oh_without_rules();
    let st = oh.state(at);
    vpost!("C03.state.is_the_state_the_schedule_of_its_day_gives_to_the_instant", st == spec_state(at));
    vcover!("iter_state.open", st == RuleKind::Open);
    vcover!("iter_state.unknown", st == RuleKind::Unknown);
}
