//! C08 (closed outside 1900..9999; hints and the pre-1900 jump), C17 (no comments outside the supported
//! range), C02 (composition of the per-rule hints): contracts in assert form for the parts of
//! `opening-hours/src/opening_hours.rs` that do not need the interval iterator.
//! Child module of `opening_hours` (overlaid): the private fields of `OpeningHours` and the private
//! `next_change_hint` are visible.
//!
//! `rule_sequence_schedule_at` is replaced by a *contract model* that contributes arbitrarily (nothing, or a
//! whole-day open schedule with a comment), so the obligations hold whatever a rule evaluates to.  The trait
//! methods `DaySelector::{filter, next_change_hint}` cannot be replaced (Kani does not support stubs on generic
//! trait methods): the rule's day selector is the real, empty one.
use super::*;
use crate::filter::date_filter::verif_date_filter::{date_end, date_start};
use crate::schedule::TimeRange;
use chrono::Datelike;
use opening_hours_syntax::rules::day as ds;
use opening_hours_syntax::sorted_vec::UniqueSortedVec;
use opening_hours_syntax::verif_nd as nd;
use opening_hours_syntax::{vcover, vpost};

// ---- contract models of the callees (cfg(kani) only: they answer nondeterministically) -------------------

#[cfg(kani)]
pub(crate) fn filter_model<L: Localize>(_s: &ds::DaySelector, _date: NaiveDate, _ctx: &Context<L>) -> bool {
    kani::any()
}

/// any hint the contract of C02 allows: none, or a date after `date` and not beyond 10000-01-01
#[cfg(kani)]
pub(crate) fn hint_model<L: Localize>(_s: &ds::DaySelector, date: NaiveDate, _ctx: &Context<L>) -> Option<NaiveDate> {
    if kani::any() {
        return None;
    }
    let days: i32 = kani::any();
    let h = NaiveDate::from_num_days_from_ce_opt(days);
    kani::assume(matches!(h, Some(h) if h > date && h <= DATE_END.date()));
    h
}

/// a rule contributes nothing, or a whole-day open schedule carrying a comment
#[cfg(kani)]
pub(crate) fn rule_schedule_model<L: Localize>(_r: &RuleSequence, _date: NaiveDate, _ctx: &Context<L>) -> Option<Schedule> {
    if kani::any() {
        None
    } else {
        let comments: UniqueSortedVec<Arc<str>> = vec![Arc::from("c")].into();
        Some(Schedule { inner: vec![TimeRange::new(ExtendedTime::MIDNIGHT_00..ExtendedTime::MIDNIGHT_24, RuleKind::Open, comments)] })
    }
}

fn any_chrono_date() -> NaiveDate {
    let days = nd::i32();
    let d = NaiveDate::from_num_days_from_ce_opt(days);
    nd::assume(d.is_some());
    d.unwrap()
}

fn any_operator() -> RuleOperator {
    match nd::u8() % 3 {
        0 => RuleOperator::Normal,
        1 => RuleOperator::Additional,
        _ => RuleOperator::Fallback,
    }
}

fn any_kind() -> RuleKind {
    match nd::u8() % 3 {
        0 => RuleKind::Open,
        1 => RuleKind::Closed,
        _ => RuleKind::Unknown,
    }
}

/// an expression of one rule with arbitrary operator and kind; what the rule matches and contributes is
/// decided by the contract models
fn no_rule() -> OpeningHours {
    OpeningHours { expr: Arc::new(OpeningHoursExpression { rules: Vec::new() }), ctx: Context::default() }
}

fn one_rule() -> OpeningHours {
    let rule = RuleSequence {
        day_selector: Default::default(),
        time_selector: Default::default(),
        kind: any_kind(),
        operator: any_operator(),
        comments: Default::default(),
    };
    OpeningHours { expr: Arc::new(OpeningHoursExpression { rules: vec![rule] }), ctx: Context::default() }
}

//@H props=C08,C17,C04 tier=quick kind=bounded cap=1800 mem=medium bound="the expression without rules (a harness with one rule gave no verdict in 1800 s, see schedule_at_is_empty_outside_supported_range_one_rule)" domain="every date chrono can represent outside 1900-01-01..9999-12-31"
#[cfg_attr(kani, kani::proof)]
#[cfg_attr(kani, kani::unwind(3))]
#[cfg_attr(kani, kani::stub(rule_sequence_schedule_at, rule_schedule_model))]
#[cfg_attr(verif_replay, test)]
fn schedule_at_is_empty_outside_supported_range() {
    let oh = no_rule();
    let d = any_chrono_date();
    nd::assume(d < date_start() || d >= date_end());
    let s = oh.schedule_at(d);
    vpost!("C08.schedule_at.closed_before_1900_and_from_10000_on", s.is_empty());
    vpost!("C17.schedule_at.no_comments_outside_the_supported_range", s.inner.iter().all(|tr| tr.comments.is_empty()));
    vcover!("schedule_at_outside.year_10000", d.year() == 10000);
    vcover!("schedule_at_outside.first_day_after", d == date_end());
    vcover!("schedule_at_outside.before", d < date_start());
}

//@H props=C08,C02,C04 tier=quick kind=bounded cap=1800 mem=medium bound="the expression without rules" domain="every date from year 1 to 9999-12-31"
#[cfg_attr(kani, kani::proof)]
#[cfg_attr(kani, kani::unwind(3))]
#[cfg_attr(kani, kani::stub(rule_sequence_schedule_at, rule_schedule_model))]
#[cfg_attr(verif_replay, test)]
fn next_change_hint_composition() {
    let oh = no_rule();
    let d = any_chrono_date();
    nd::assume(d.year() >= 1 && d < date_end());
    let h = oh.next_change_hint(d);
    if d < date_start() {
        vpost!("C08.next_change_hint.before_1900_jumps_to_1900_01_01", h == Some(date_start()));
    } else if let Some(h) = h {
        vpost!("C02.next_change_hint.is_after_the_date", h > d);
        vpost!("C08.next_change_hint.never_beyond_10000_01_01", h <= date_end());
    }
    vcover!("hint_composition.before_1900", d < date_start());
    vcover!("hint_composition.inside_some", d >= date_start() && d < date_end() && h.is_some());
}

//@H props=C08,C17,C04 tier=off kind=bounded cap=3600 mem=heavy note="no verdict in 1800 s: DaySelector::filter cannot be stubbed (generic trait method) and CBMC explores all of date_filter.rs" bound="expressions of 1 rule (any operator/kind; contribution arbitrary)" domain="every date chrono can represent outside 1900-01-01..9999-12-31"
#[cfg_attr(kani, kani::proof)]
#[cfg_attr(kani, kani::unwind(3))]
#[cfg_attr(kani, kani::stub(rule_sequence_schedule_at, rule_schedule_model))]
#[cfg_attr(verif_replay, test)]
fn schedule_at_is_empty_outside_supported_range_one_rule() {
    let oh = one_rule();
    let d = any_chrono_date();
    nd::assume(d < date_start() || d >= date_end());
    let s = oh.schedule_at(d);
    vpost!("C08.schedule_at.closed_before_1900_and_from_10000_on", s.is_empty());
    vcover!("schedule_at_outside_one_rule.year_10000", d.year() == 10000);
}
