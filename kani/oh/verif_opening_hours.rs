//! C08 (closed outside 1900..9999; hints and the pre-1900 jump), C17 (no comments outside the supported
//! range), C02 (composition of the per-rule hints): contracts in assert form for the parts of
//! `opening-hours/src/opening_hours.rs` that do not need the interval iterator.
//! Child module of `opening_hours` (overlaid): the private fields of `OpeningHours` and the private
//! `next_change_hint` are visible.
//!
//! `rule_sequence_schedule_at` is replaced by a *contract model* that contributes arbitrarily (nothing, or a
//! whole-day open schedule with a comment), so the obligations hold whatever a rule evaluates to.  The trait
//! methods `DaySelector::{filter, next_change_hint}` cannot be replaced (Kani does not support stubs on generic
//! trait methods): the rule's day selector is the real, empty one.
use super::*;
use crate::filter::date_filter::verif_date_filter::{date_end, date_start};
use crate::schedule::TimeRange;
use chrono::Datelike;
use opening_hours_syntax::rules::day as ds;
use opening_hours_syntax::sorted_vec::UniqueSortedVec;
use opening_hours_syntax::verif_nd as nd;
use opening_hours_syntax::{vcover, vpost};

// ---- contract models of the callees (cfg(kani) only: they answer nondeterministically) -------------------

#[cfg(kani)]
pub(crate) fn filter_model<L: Localize>(_s: &ds::DaySelector, _date: NaiveDate, _ctx: &Context<L>) -> bool {
    kani::any()
}

/// any hint the contract of C02 allows: none, or a date after `date` and not beyond 10000-01-01
#[cfg(kani)]
pub(crate) fn hint_model<L: Localize>(_s: &ds::DaySelector, date: NaiveDate, _ctx: &Context<L>) -> Option<NaiveDate> {
    if kani::any() {
        return None;
    }
    let days: i32 = kani::any();
    let h = NaiveDate::from_num_days_from_ce_opt(days);
    kani::assume(matches!(h, Some(h) if h > date && h <= DATE_END.date()));
    h
}

/// a rule contributes nothing, or a whole-day open schedule carrying a comment
#[cfg(kani)]
pub(crate) fn rule_schedule_model<L: Localize>(_r: &RuleSequence, _date: NaiveDate, _ctx: &Context<L>) -> Option<Schedule> {
    if kani::any() {
        None
    } else {
        let comments: UniqueSortedVec<Arc<str>> = vec![Arc::from("c")].into();
        Some(Schedule { inner: vec![TimeRange::new(ExtendedTime::MIDNIGHT_00..ExtendedTime::MIDNIGHT_24, RuleKind::Open, comments)] })
    }
}

fn any_chrono_date() -> NaiveDate {
    let days = nd::i32();
    let d = NaiveDate::from_num_days_from_ce_opt(days);
    nd::assume(d.is_some());
    d.unwrap()
}

fn any_operator() -> RuleOperator {
    match nd::u8() % 3 {
        0 => RuleOperator::Normal,
        1 => RuleOperator::Additional,
        _ => RuleOperator::Fallback,
    }
}

fn any_kind() -> RuleKind {
    match nd::u8() % 3 {
        0 => RuleKind::Open,
        1 => RuleKind::Closed,
        _ => RuleKind::Unknown,
    }
}

/// an expression of one rule with arbitrary operator and kind; what the rule matches and contributes is
/// decided by the contract models
fn no_rule() -> OpeningHours {
    OpeningHours { expr: Arc::new(OpeningHoursExpression { rules: Vec::new() }), ctx: Context::default() }
}

fn one_rule() -> OpeningHours {
    let rule = RuleSequence {
        day_selector: Default::default(),
        time_selector: Default::default(),
        kind: any_kind(),
        operator: any_operator(),
        comments: Default::default(),
    };
    OpeningHours { expr: Arc::new(OpeningHoursExpression { rules: vec![rule] }), ctx: Context::default() }
}

//@H props=C08,C17,C04 tier=quick kind=bounded cap=1800 mem=medium bound="the expression without rules (a harness with one rule gave no verdict in 1800 s, see schedule_at_is_empty_outside_supported_range_one_rule)" domain="every date chrono can represent outside 1900-01-01..9999-12-31"
#[cfg_attr(kani, kani::proof)]
#[cfg_attr(kani, kani::unwind(3))]
#[cfg_attr(kani, kani::stub(rule_sequence_schedule_at, rule_schedule_model))]
#[cfg_attr(verif_replay, test)]
fn schedule_at_is_empty_outside_supported_range() {
    let oh = no_rule();
    let d = any_chrono_date();
    nd::assume(d < date_start() || d >= date_end());
    let s = oh.schedule_at(d);
    vpost!("C08.schedule_at.closed_before_1900_and_from_10000_on", s.is_empty());
    vpost!("C17.schedule_at.no_comments_outside_the_supported_range", s.inner.iter().all(|tr| tr.comments.is_empty()));
    vcover!("schedule_at_outside.year_10000", d.year() == 10000);
    vcover!("schedule_at_outside.first_day_after", d == date_end());
    vcover!("schedule_at_outside.before", d < date_start());
}

//@H props=C08,C02,C04 tier=quick kind=bounded cap=1800 mem=medium bound="the expression without rules" domain="every date from year 1 to 9999-12-31"
#[cfg_attr(kani, kani::proof)]
#[cfg_attr(kani, kani::unwind(3))]
#[cfg_attr(kani, kani::stub(rule_sequence_schedule_at, rule_schedule_model))]
#[cfg_attr(verif_replay, test)]
fn next_change_hint_composition() {
    let oh = no_rule();
    let d = any_chrono_date();
    nd::assume(d.year() >= 1 && d < date_end());
    let h = oh.next_change_hint(d);
    if d < date_start() {
        vpost!("C08.next_change_hint.before_1900_jumps_to_1900_01_01", h == Some(date_start()));
    } else if let Some(h) = h {
        vpost!("C02.next_change_hint.is_after_the_date", h > d);
        vpost!("C08.next_change_hint.never_beyond_10000_01_01", h <= date_end());
    }
    vcover!("hint_composition.before_1900", d < date_start());
    vcover!("hint_composition.inside_some", d >= date_start() && d < date_end() && h.is_some());
}

//@H props=C08,C17,C04 tier=off kind=bounded cap=3600 mem=heavy note="no verdict in 1800 s: DaySelector::filter cannot be stubbed (generic trait method) and CBMC explores all of date_filter.rs" bound="expressions of 1 rule (any operator/kind; contribution arbitrary)" domain="every date chrono can represent outside 1900-01-01..9999-12-31"
#[cfg_attr(kani, kani::proof)]
#[cfg_attr(kani, kani::unwind(3))]
#[cfg_attr(kani, kani::stub(rule_sequence_schedule_at, rule_schedule_model))]
#[cfg_attr(verif_replay, test)]
fn schedule_at_is_empty_outside_supported_range_one_rule() {
    let oh = one_rule();
    let d = any_chrono_date();
    nd::assume(d < date_start() || d >= date_end());
    let s = oh.schedule_at(d);
    vpost!("C08.schedule_at.closed_before_1900_and_from_10000_on", s.is_empty());
    vcover!("schedule_at_outside_one_rule.year_10000", d.year() == 10000);
}

// ---- lean variants: every Schedule operation that is not the subject of the obligation is a contract model ----------

/// a rule contributes nothing, or a whole-day schedule of the rule's kind (no comments: keeps `Arc<str>` glue away)
#[cfg(kani)]
pub(crate) fn rule_schedule_lean_model<L: Localize>(r: &RuleSequence, _date: NaiveDate, _ctx: &Context<L>) -> Option<Schedule> {
    if kani::any() {
        None
    } else {
        Some(Schedule { inner: vec![TimeRange::new(ExtendedTime::MIDNIGHT_00..ExtendedTime::MIDNIGHT_24, r.kind, UniqueSortedVec::new())] })
    }
}

/// contract model of `Schedule::addition` that is exact about emptiness (the only thing the guard obligations read):
/// the sum is empty iff both operands are
pub(crate) fn addition_emptiness_model(a: Schedule, b: Schedule) -> Schedule {
    if b.inner.is_empty() {
        core::mem::forget(b);
        a
    } else {
        core::mem::forget(a);
        b
    }
}

//@H props=C08,C17,C04 tier=off kind=bounded cap=3600 mem=heavy bound="expressions of 1 rule (any operator/kind, empty day selector; the rule's contribution is an arbitrary contract model)" domain="every date chrono can represent outside 1900-01-01..9999-12-31"
#[cfg_attr(kani, kani::proof)]
#[cfg_attr(kani, kani::unwind(3))]
#[cfg_attr(kani, kani::stub(rule_sequence_schedule_at, rule_schedule_lean_model))]
#[cfg_attr(kani, kani::stub(Schedule::addition, addition_emptiness_model))]
#[cfg_attr(verif_replay, test)]
fn schedule_at_guard_one_rule_lean() {
    let oh = one_rule();
    let d = any_chrono_date();
    nd::assume(d < date_start() || d >= date_end());
    let s = oh.schedule_at(d);
    vpost!("C08.schedule_at.closed_before_1900_and_from_10000_on", s.is_empty());
    vcover!("schedule_at_guard_one_rule.year_10000", d.year() == 10000);
}

// ---- rule_sequence_schedule_at: today's spans plus yesterday's spill (opening_hours.rs:342-362) --------------------------

/// Contract model of `Schedule::addition` for operands of at most one range each (comment-free):
/// the result is well-formed and every minute shows the kind of `b` where `b` covers it, else of `a`.
/// The model is checked against that contract by `addition_small_model_meets_the_addition_contract`; that the real
/// `addition` meets it is discharged only for an empty operand (C14) - for two non-empty operands it is assumed.
pub(crate) fn addition_small_model(a: Schedule, b: Schedule) -> Schedule {
    use std::cmp::{max, min};
    if b.inner.is_empty() {
        core::mem::forget(b);
        return a;
    }
    if a.inner.is_empty() {
        core::mem::forget(a);
        return b;
    }
    let (a_s, a_e, a_k) = (a.inner[0].range.start, a.inner[0].range.end, a.inner[0].kind);
    let (b_s, b_e, b_k) = (b.inner[0].range.start, b.inner[0].range.end, b.inner[0].kind);
    core::mem::forget(a);
    core::mem::forget(b);
    let mk = |s: ExtendedTime, e: ExtendedTime, k: RuleKind| TimeRange::new(s..e, k, UniqueSortedVec::new());
    let left = a_s < min(a_e, b_s);
    let right = max(a_s, b_e) < a_e;
    let inner = match (left, right) {
        (false, false) => vec![mk(b_s, b_e, b_k)],
        (true, false) => vec![mk(a_s, min(a_e, b_s), a_k), mk(b_s, b_e, b_k)],
        (false, true) => vec![mk(b_s, b_e, b_k), mk(max(a_s, b_e), a_e, a_k)],
        (true, true) => vec![mk(a_s, b_s, a_k), mk(b_s, b_e, b_k), mk(b_e, a_e, a_k)],
    };
    Schedule { inner }
}

fn any_ext_time(max: u16) -> ExtendedTime {
    let m = nd::u16();
    nd::assume(m <= max);
    ExtendedTime::from_mins_from_midnight(m).unwrap()
}

fn any_small_schedule() -> (Schedule, Option<(ExtendedTime, ExtendedTime, RuleKind)>) {
    let (s, e, k) = (any_ext_time(48 * 60), any_ext_time(48 * 60), any_kind());
    if nd::bool() {
        nd::assume(s < e);
        (Schedule { inner: vec![TimeRange::new(s..e, k, UniqueSortedVec::new())] }, Some((s, e, k)))
    } else {
        (Schedule::default(), None)
    }
}

fn small_kind_at(r: &Option<(ExtendedTime, ExtendedTime, RuleKind)>, q: ExtendedTime) -> Option<RuleKind> {
    match r {
        Some((s, e, k)) if *s <= q && q < *e => Some(*k),
        _ => None,
    }
}

//@H props=C01,C14 tier=quick kind=bounded cap=900 mem=medium bound="operands of at most 1 range each" domain="bounds anywhere in 00:00..=48:00, all kinds, query minute 00:00..=48:00"
#[cfg_attr(kani, kani::proof)]
#[cfg_attr(kani, kani::unwind(5))]
#[cfg_attr(verif_replay, test)]
fn addition_small_model_meets_the_addition_contract() {
    let (a, ra) = any_small_schedule();
    let (b, rb) = any_small_schedule();
    let q = any_ext_time(48 * 60);
    let r = addition_small_model(a, b);
    vpost!("MODEL.addition_small.result_ranges_nonempty_increasing_disjoint", crate::schedule::verif_schedule::wf(&r));
    vpost!(
        "MODEL.addition_small.most_recently_added_wins_earlier_shows_through_elsewhere",
        crate::schedule::verif_schedule::kind_at(&r, q) == small_kind_at(&rb, q).or(small_kind_at(&ra, q))
    );
    vcover!("addition_small_model.three_pieces", r.inner.len() == 3);
    core::mem::forget(r);
}

/// a rule with one fixed time span and a day selector that matches exactly the days of one (symbolic) year
fn rule_day_schedule_body(with_year_selector: bool) {
    use opening_hours_syntax::rules::time::{TimeSelector, TimeSpan};
    let (s, e) = (any_ext_time(24 * 60), any_ext_time(48 * 60));
    let kind = any_kind();
    let y = nd::u16();
    nd::assume(1900 <= y && y <= 9999);
    let day_selector = if with_year_selector {
        ds::DaySelector { year: vec![ds::YearRange { range: ds::Year(y)..=ds::Year(y), step: 1 }], ..Default::default() }
    } else {
        ds::DaySelector::default()
    };
    let rule = RuleSequence {
        day_selector,
        time_selector: TimeSelector { time: vec![TimeSpan::fixed_range(s, e)] },
        kind,
        operator: RuleOperator::Normal,
        comments: Default::default(),
    };
    let ctx = Context::default();
    let d = crate::filter::date_filter::verif_date_filter::any_date();
    let q = any_ext_time(24 * 60 - 1);
    // the statement: the span [s, e) (e + 24:00 when e <= s) of a day the rule applies on covers its minutes of that day
    // and, past 24:00, the early minutes of the following day
    let end = if s < e { e.mins_from_midnight() } else { e.mins_from_midnight() + 24 * 60 };
    let end = if end > 48 * 60 { 48 * 60 } else { end };
    let applies_today = !with_year_selector || d.year() == y as i32;
    let applies_yesterday = match d.pred_opt() {
        Some(p) => !with_year_selector || p.year() == y as i32,
        None => false,
    };
    let qm = q.mins_from_midnight();
    let open_from_today = applies_today && s.mins_from_midnight() <= qm && qm < end;
    let open_from_yesterday = applies_yesterday && s.mins_from_midnight() <= qm + 24 * 60 && qm + 24 * 60 < end;
    let got = rule_sequence_schedule_at(&rule, d, &ctx);
    vpost!("C01.rule_day_schedule.none_iff_the_rule_applies_neither_today_nor_yesterday", got.is_some() == (applies_today || applies_yesterday));
    let got_kind = got.as_ref().and_then(|sch| crate::schedule::verif_schedule::kind_at(sch, q));
    vpost!(
        "C01.rule_day_schedule.minute_has_the_rule_kind_iff_a_span_of_today_or_a_span_passing_midnight_of_yesterday_covers_it",
        got_kind == if open_from_today || open_from_yesterday { Some(kind) } else { None }
    );
    vpost!("C01.rule_day_schedule.ranges_nonempty_increasing_disjoint_within_the_day", got.as_ref().map_or(true, |sch| {
        crate::schedule::verif_schedule::wf(sch) && sch.inner.iter().all(|tr| tr.range.end <= ExtendedTime::MIDNIGHT_24)
    }));
    vcover!("rule_day_schedule.spill_only", !open_from_today && open_from_yesterday);
    vcover!("rule_day_schedule.both", got.as_ref().map_or(false, |sch| sch.inner.len() == 2));
    vcover!("rule_day_schedule.applies_yesterday_only", !with_year_selector || (!applies_today && applies_yesterday));
    core::mem::forget(got);
}

//@H props=C01,C04 tier=thorough kind=bounded cap=3600 mem=heavy bound="rule with 1 fixed time span and the empty day selector; Schedule::addition replaced by its contract model" domain="start 00:00..=24:00, end 00:00..=48:00, all kinds, all dates, query minute 00:00..23:59"
#[cfg_attr(kani, kani::proof)]
#[cfg_attr(kani, kani::unwind(4))]
#[cfg_attr(kani, kani::stub(core::slice::sort::unstable::sort, crate::schedule::verif_schedule::sort_model))]
#[cfg_attr(kani, kani::stub(opening_hours_syntax::sorted_vec::UniqueSortedVec::union, crate::schedule::verif_schedule::union_left_model))]
#[cfg_attr(kani, kani::stub(Schedule::addition, addition_small_model))]
#[cfg_attr(kani, kani::stub(crate::filter::date_filter::valid_ymd_before, unreached_ymd_model))]
#[cfg_attr(kani, kani::stub(crate::filter::date_filter::valid_ymd_after, unreached_ymd_model))]
#[cfg_attr(kani, kani::stub(crate::utils::dates::easter, unreached_easter_model))]
#[cfg_attr(kani, kani::stub(crate::utils::dates::count_days_in_month, unreached_days_in_month_model))]
#[cfg_attr(kani, kani::stub(opening_hours_syntax::rules::day::DateOffset::apply, unreached_offset_model))]
#[cfg_attr(kani, kani::stub(compact_calendar::CompactCalendar::contains, unreached_contains_model))]
#[cfg_attr(kani, kani::stub(compact_calendar::CompactCalendar::first_after, unreached_first_after_model))]
#[cfg_attr(verif_replay, test)]
fn rule_day_schedule_every_day() {
    rule_day_schedule_body(false)
}

//@H props=C01,C04 tier=thorough kind=bounded cap=3600 mem=heavy bound="rule with 1 fixed time span and a one-year day selector; Schedule::addition replaced by its contract model" domain="start 00:00..=24:00, end 00:00..=48:00, all kinds, all years, all dates, query minute 00:00..23:59"
#[cfg_attr(kani, kani::proof)]
#[cfg_attr(kani, kani::unwind(4))]
#[cfg_attr(kani, kani::stub(core::slice::sort::unstable::sort, crate::schedule::verif_schedule::sort_model))]
#[cfg_attr(kani, kani::stub(opening_hours_syntax::sorted_vec::UniqueSortedVec::union, crate::schedule::verif_schedule::union_left_model))]
#[cfg_attr(kani, kani::stub(Schedule::addition, addition_small_model))]
#[cfg_attr(kani, kani::stub(crate::filter::date_filter::valid_ymd_before, unreached_ymd_model))]
#[cfg_attr(kani, kani::stub(crate::filter::date_filter::valid_ymd_after, unreached_ymd_model))]
#[cfg_attr(kani, kani::stub(crate::utils::dates::easter, unreached_easter_model))]
#[cfg_attr(kani, kani::stub(crate::utils::dates::count_days_in_month, unreached_days_in_month_model))]
#[cfg_attr(kani, kani::stub(opening_hours_syntax::rules::day::DateOffset::apply, unreached_offset_model))]
#[cfg_attr(kani, kani::stub(compact_calendar::CompactCalendar::contains, unreached_contains_model))]
#[cfg_attr(kani, kani::stub(compact_calendar::CompactCalendar::first_after, unreached_first_after_model))]
#[cfg_attr(verif_replay, test)]
fn rule_day_schedule_one_year() {
    rule_day_schedule_body(true)
}

// ---- leaf models for harnesses whose day selectors are empty ---------------------------------------------------------------
//
// CBMC does not propagate "the selector vectors behind the `Arc` are empty" during symbolic execution and would unfold all
// of date_filter.rs on dead paths.  The chrono-heavy leaves are therefore replaced by models that carry an obligation
// stating they are never reached; the solver discharges it (the paths are infeasible), so nothing is assumed about them.

macro_rules! unreached {
    () => {
        vpost!("HARNESS.selector_leaf_code_is_not_reached_when_every_day_selector_is_empty", false)
    };
}

pub(crate) fn unreached_ymd_model(_year: i32, _month: u32, _day: u32) -> NaiveDate {
    unreached!();
    DATE_END.date()
}

pub(crate) fn unreached_easter_model(_year: i32) -> Option<NaiveDate> {
    unreached!();
    None
}

pub(crate) fn unreached_days_in_month_model(_date: NaiveDate) -> u8 {
    unreached!();
    30
}

pub(crate) fn unreached_offset_model(_o: &ds::DateOffset, date: NaiveDate) -> NaiveDate {
    unreached!();
    date
}

pub(crate) fn unreached_contains_model(_c: &compact_calendar::CompactCalendar, _d: NaiveDate) -> bool {
    unreached!();
    false
}

pub(crate) fn unreached_first_after_model(_c: &compact_calendar::CompactCalendar, _d: NaiveDate) -> Option<NaiveDate> {
    unreached!();
    None
}

//@H props=C08,C17,C04 tier=quick kind=bounded cap=1200 mem=light bound="expressions of 1 rule (any operator/kind, empty day selector; the rule's contribution is an arbitrary contract model)" domain="every date chrono can represent outside 1900-01-01..9999-12-31"
#[cfg_attr(kani, kani::proof)]
#[cfg_attr(kani, kani::unwind(2))]
#[cfg_attr(kani, kani::stub(rule_sequence_schedule_at, rule_schedule_lean_model))]
#[cfg_attr(kani, kani::stub(Schedule::addition, addition_emptiness_model))]
#[cfg_attr(kani, kani::stub(crate::filter::date_filter::valid_ymd_before, unreached_ymd_model))]
#[cfg_attr(kani, kani::stub(crate::filter::date_filter::valid_ymd_after, unreached_ymd_model))]
#[cfg_attr(kani, kani::stub(crate::utils::dates::easter, unreached_easter_model))]
#[cfg_attr(kani, kani::stub(crate::utils::dates::count_days_in_month, unreached_days_in_month_model))]
#[cfg_attr(kani, kani::stub(opening_hours_syntax::rules::day::DateOffset::apply, unreached_offset_model))]
#[cfg_attr(kani, kani::stub(compact_calendar::CompactCalendar::contains, unreached_contains_model))]
#[cfg_attr(kani, kani::stub(compact_calendar::CompactCalendar::first_after, unreached_first_after_model))]
#[cfg_attr(verif_replay, test)]
fn schedule_at_guard_one_rule_leaves_stubbed() {
    let oh = one_rule();
    let d = any_chrono_date();
    nd::assume(d < date_start() || d >= date_end());
    let s = oh.schedule_at(d);
    vpost!("C08.schedule_at.closed_before_1900_and_from_10000_on", s.is_empty());
    vcover!("schedule_at_guard_one_rule_stubbed.year_10000", d.year() == 10000);
}

// ---- U-comb: the rule-combination loop of `schedule_at` against the contracts of its callees ------------------------------
//
// Statement (C01): "a later normal rule replaces earlier rules on the days it applies, additional rules and closed rules
// overlay, fallback rules apply only on days nothing else covered".
//
// The real loop runs over real `RuleSequence` values whose day selector is a one-year range (so whether rule i applies on
// the day is the symbolic bit `year(d) == y_i`, decided by the real `DaySelector::filter` / `YearRange::filter`).  What a
// rule contributes is a *contract model* of `rule_sequence_schedule_at`: nothing when the rule does not apply, otherwise a
// whole-day schedule of the rule's kind or the empty schedule (a time selector without spans for that day), chosen per
// rule by the harness.  `Schedule::addition` is replaced by its contract restricted to such operands (the later operand
// wins where it covers).  Bound: no spill-over from the previous day, whole-day contributions.

pub(crate) const MAX_RULES: usize = 3;
static mut COMB_RULES: *const RuleSequence = core::ptr::null();
/// per rule: year it applies in, whether it contributes a whole-day range when it applies
static mut COMB_TAB: [(u16, bool); MAX_RULES] = [(0, false); MAX_RULES];

pub(crate) fn comb_rule_model<L: Localize>(r: &RuleSequence, date: NaiveDate, _ctx: &Context<L>) -> Option<Schedule> {
    let mut i = 0;
    while i < MAX_RULES {
        if core::ptr::eq(r, unsafe { COMB_RULES.add(i) }) {
            let (y, whole_day) = unsafe { COMB_TAB[i] };
            if date.year() != y as i32 {
                return None;
            }
            let mut inner = Vec::new();
            if whole_day {
                inner.push(TimeRange::new(ExtendedTime::MIDNIGHT_00..ExtendedTime::MIDNIGHT_24, r.kind, UniqueSortedVec::new()));
            }
            return Some(Schedule { inner });
        }
        i += 1;
    }
    vpost!("HARNESS.comb_rule_model_is_only_asked_about_rules_of_the_expression", false);
    None
}

/// `Schedule::addition` restricted to whole-day or empty operands: the later operand wins where it covers
pub(crate) fn addition_whole_day_model(a: Schedule, b: Schedule) -> Schedule {
    if b.inner.is_empty() {
        core::mem::forget(b);
        a
    } else {
        core::mem::forget(a);
        b
    }
}

/// what the day looks like so far: no schedule at all, an empty schedule, or one kind all day long
#[derive(Clone, Copy, PartialEq, Eq)]
enum DayView {
    Nothing,
    Empty,
    WholeDay(RuleKind),
}

fn comb_body<const N: usize>() {
    let d = crate::filter::date_filter::verif_date_filter::any_date();
    let mut rules = Vec::new();
    let mut ops = [(RuleOperator::Normal, RuleKind::Open, false, false); N];
    let mut i = 0;
    while i < N {
        let (op, kind) = (any_operator(), any_kind());
        let y = nd::u16();
        nd::assume(1900 <= y && y <= 9999);
        let whole_day = nd::bool();
        unsafe { COMB_TAB[i] = (y, whole_day) };
        ops[i] = (op, kind, d.year() == y as i32, whole_day);
        rules.push(RuleSequence {
            day_selector: ds::DaySelector { year: vec![ds::YearRange { range: ds::Year(y)..=ds::Year(y), step: 1 }], ..Default::default() },
            time_selector: Default::default(),
            kind,
            operator: op,
            comments: Default::default(),
        });
        i += 1;
    }
    // ---- the statement, as a fold over (applies, contribution) pairs
    let mut covered = false;
    let mut view = DayView::Nothing;
    let mut ambiguous = false;
    let mut i = 0;
    while i < N {
        let (op, kind, applies, whole_day) = ops[i];
        let contribution = if whole_day { DayView::WholeDay(kind) } else { DayView::Empty };
        match (op, kind) {
            (RuleOperator::Normal, RuleKind::Open | RuleKind::Unknown) => {
                if applies {
                    view = contribution; // replaces earlier rules on the days it applies
                    covered = true;
                }
            }
            (RuleOperator::Additional, _) | (RuleOperator::Normal, RuleKind::Closed) => {
                if applies {
                    // overlays: wins where it covers, earlier rules show through elsewhere
                    view = if whole_day || view == DayView::Nothing { contribution } else { view };
                    covered = true;
                }
            }
            (RuleOperator::Fallback, _) => {
                // applies only on days nothing else covered.  Whether a day on which earlier rules applied but left
                // closed all day counts as "covered" is not settled by the statement: left out of the obligation.
                if covered && !matches!(view, DayView::WholeDay(RuleKind::Open | RuleKind::Unknown)) {
                    ambiguous = true;
                }
                if !covered {
                    view = if applies { contribution } else { DayView::Nothing };
                    covered = applies;
                }
            }
        }
        i += 1;
    }
    nd::assume(!ambiguous);
    let oh = OpeningHours { expr: Arc::new(OpeningHoursExpression { rules }), ctx: Context::default() };
    unsafe { COMB_RULES = oh.expr.rules.as_ptr() };
    let q = any_ext_time(24 * 60 - 1);
    let got = oh.schedule_at(d);
    let got_kind = crate::schedule::verif_schedule::kind_at(&got, q);
    match view {
        DayView::WholeDay(k) => {
            vpost!("C01.rule_combination.later_normal_replaces_additional_and_closed_overlay_fallback_only_if_uncovered", got_kind == Some(k));
        }
        _ => {
            vpost!("C01.rule_combination.no_applicable_rule_or_no_span_means_an_empty_schedule", got.is_empty());
        }
    }
    vpost!("C17.schedule_at.no_comments_when_no_rule_has_any", got.inner.iter().all(|tr| tr.comments.is_empty()));
    vcover!("comb.fallback_applies", N < 2 || (ops[N - 1].0 == RuleOperator::Fallback && ops[N - 1].2 && !ops[0].2 && view != DayView::Nothing));
    vcover!("comb.fallback_skipped", N < 2 || (ops[N - 1].0 == RuleOperator::Fallback && ops[N - 1].2 && ops[0].2 && view == DayView::WholeDay(ops[0].1)));
    vcover!("comb.normal_replaces", N < 2 || (ops[0].2 && ops[1].2 && ops[1].0 == RuleOperator::Normal && ops[0].1 != ops[1].1 && ops[0].3 && ops[1].3));
    vcover!("comb.additional_overlays", N < 2 || (ops[0].2 && ops[1].2 && ops[1].0 == RuleOperator::Additional && ops[0].3 && !ops[1].3));
    vcover!("comb.non_matching_normal_rule_between", N < 3 || (ops[0].2 && !ops[1].2 && ops[1].0 == RuleOperator::Normal && ops[2].0 == RuleOperator::Fallback && ops[2].2));
    core::mem::forget(got);
}


//@H props=C01,C17,C04 tier=off kind=bounded cap=3600 mem=medium bound="expressions of 2 rules (all operators x kinds; one-year day selectors; whole-day or empty contributions, no spill-over from the previous day); callees replaced by contract models" domain="all dates 1900..9999, all rule years, query minute 00:00..23:59" note="verified in round two; on the tree of round three CBMC reports heap-model artefacts (drop_glue of an empty [Arc<str>] unwound past its bound, rust_dealloc layout, dereference of deallocated objects) and, behind the failed unwinding assertion, the named obligation as well; nothing reproduces natively; kept out of the registered tiers until the artefact is understood"
#[cfg_attr(kani, kani::proof)]
#[cfg_attr(kani, kani::unwind(3))]
#[cfg_attr(kani, kani::stub(rule_sequence_schedule_at, comb_rule_model))]
#[cfg_attr(kani, kani::stub(Schedule::addition, addition_whole_day_model))]
#[cfg_attr(kani, kani::stub(crate::filter::date_filter::valid_ymd_before, unreached_ymd_model))]
#[cfg_attr(kani, kani::stub(crate::filter::date_filter::valid_ymd_after, unreached_ymd_model))]
#[cfg_attr(kani, kani::stub(crate::utils::dates::easter, unreached_easter_model))]
#[cfg_attr(kani, kani::stub(crate::utils::dates::count_days_in_month, unreached_days_in_month_model))]
#[cfg_attr(kani, kani::stub(opening_hours_syntax::rules::day::DateOffset::apply, unreached_offset_model))]
#[cfg_attr(kani, kani::stub(compact_calendar::CompactCalendar::contains, unreached_contains_model))]
#[cfg_attr(kani, kani::stub(compact_calendar::CompactCalendar::first_after, unreached_first_after_model))]
#[cfg_attr(verif_replay, test)]
fn rule_combination_2() {
    comb_body::<2>()
}

//@H props=C01,C17,C04 tier=off kind=bounded cap=3600 mem=medium bound="expressions of 3 rules (all operators x kinds; one-year day selectors; whole-day or empty contributions, no spill-over from the previous day); callees replaced by contract models" domain="all dates 1900..9999, all rule years, query minute 00:00..23:59" note="verified in round two; on the tree of round three CBMC reports heap-model artefacts (drop_glue of an empty [Arc<str>] unwound past its bound, rust_dealloc layout, dereference of deallocated objects) and, behind the failed unwinding assertion, the named obligation as well; nothing reproduces natively; kept out of the registered tiers until the artefact is understood"
#[cfg_attr(kani, kani::proof)]
#[cfg_attr(kani, kani::unwind(4))]
#[cfg_attr(kani, kani::stub(rule_sequence_schedule_at, comb_rule_model))]
#[cfg_attr(kani, kani::stub(Schedule::addition, addition_whole_day_model))]
#[cfg_attr(kani, kani::stub(crate::filter::date_filter::valid_ymd_before, unreached_ymd_model))]
#[cfg_attr(kani, kani::stub(crate::filter::date_filter::valid_ymd_after, unreached_ymd_model))]
#[cfg_attr(kani, kani::stub(crate::utils::dates::easter, unreached_easter_model))]
#[cfg_attr(kani, kani::stub(crate::utils::dates::count_days_in_month, unreached_days_in_month_model))]
#[cfg_attr(kani, kani::stub(opening_hours_syntax::rules::day::DateOffset::apply, unreached_offset_model))]
#[cfg_attr(kani, kani::stub(compact_calendar::CompactCalendar::contains, unreached_contains_model))]
#[cfg_attr(kani, kani::stub(compact_calendar::CompactCalendar::first_after, unreached_first_after_model))]
#[cfg_attr(verif_replay, test)]
fn rule_combination_3() {
    comb_body::<3>()
}

// ---- composition of the per-rule hints in `OpeningHours::next_change_hint` (opening_hours.rs:110-133) -------------------
//
// Statement (C02): "No state change present in the daily schedules is skipped or displaced, however many days lie between
// changes."  For the composition this means: a hint that jumps over days is allowed only if, for every rule, the rule
// applies on none of the days d, skipped days, or applies on all of them with a time selector that is the same whole day
// every day - otherwise the skipped days could differ from d.  Rules carry one-year day selectors (real `YearRange`
// filter and hint), so whether rule i applies on a day is `year == y_i`; the skipped day d' is symbolic.
// Not expressed here: the spill-over of a span passing midnight from the day before d (the known `Jul 22 04:00-48:00`
// defect lives there; DESIGN.md section 0c).

/// N rules with one-year day selectors and one fixed span each (whole day or part of the day)
fn hint_rules<const N: usize>() -> (OpeningHours, [(u16, bool); N]) {
    use opening_hours_syntax::rules::time::{TimeSelector, TimeSpan};
    let mut rules = Vec::new();
    let mut tab = [(0u16, false); N];
    let mut i = 0;
    while i < N {
        let y = nd::u16();
        nd::assume(1900 <= y && y <= 9999);
        let full_day = nd::bool();
        let span = if full_day {
            TimeSpan::fixed_range(ExtendedTime::MIDNIGHT_00, ExtendedTime::MIDNIGHT_24)
        } else {
            TimeSpan::fixed_range(any_ext_time(24 * 60), any_ext_time(48 * 60))
        };
        nd::assume(full_day || span != TimeSpan::fixed_range(ExtendedTime::MIDNIGHT_00, ExtendedTime::MIDNIGHT_24));
        tab[i] = (y, full_day);
        rules.push(RuleSequence {
            day_selector: ds::DaySelector { year: vec![ds::YearRange { range: ds::Year(y)..=ds::Year(y), step: 1 }], ..Default::default() },
            time_selector: TimeSelector { time: vec![span] },
            kind: any_kind(),
            operator: any_operator(),
            comments: Default::default(),
        });
        i += 1;
    }
    (OpeningHours { expr: Arc::new(OpeningHoursExpression { rules }), ctx: Context::default() }, tab)
}

fn hint_before_1900_body<const N: usize>() {
    let (oh, _) = hint_rules::<N>();
    let d = any_chrono_date();
    nd::assume(d.year() >= 1 && d < date_start());
    // "from an instant before 1900 it returns the first instant from 1900-01-01T00:00 on at which the expression is not
    // closed": the day 1900-01-01 itself must be looked at, whatever the rules are
    vpost!("C08.next_change_hint.before_1900_jumps_to_1900_01_01", oh.next_change_hint(d) == Some(date_start()));
    vcover!("hint_before_1900.reachable", true);
}

fn hint_rules_body<const N: usize>() {
    let d = crate::filter::date_filter::verif_date_filter::any_date();
    let between = crate::filter::date_filter::verif_date_filter::any_date();
    let (oh, tab) = hint_rules::<N>();
    let hint = oh.next_change_hint(d);
    if let Some(h) = hint {
        vpost!("C02.next_change_hint.is_after_the_date", h > d);
        vpost!("C08.next_change_hint.never_beyond_10000_01_01", h <= date_end());
        // a trivially constant expression may skip everything: that `is_constant()` implies one single full-day kind on
        // every day is the obligation of the `is_constant_N` harnesses (callee contract)
        let jumps = d.succ_opt().map_or(false, |next| h > next) && !oh.expr.is_constant();
        let mut i = 0;
        while i < N {
            let (y, full_day) = tab[i];
            let applies_d = d.year() == y as i32;
            if jumps {
                vpost!(
                    "C02.next_change_hint.days_are_skipped_only_if_no_rule_with_part_day_spans_applies",
                    !applies_d || full_day
                );
                if d < between && between < h {
                    vpost!(
                        "C02.next_change_hint.every_rule_applies_on_all_skipped_days_or_on_none",
                        (between.year() == y as i32) == applies_d
                    );
                }
            }
            i += 1;
        }
    }
    vcover!("hint_rules.jump", hint.map_or(false, |h| d.succ_opt().map_or(false, |n| h > n)));
    vcover!("hint_rules.next_day_because_of_part_day_span", hint == d.succ_opt() && d.ordinal() < 300);
    vcover!("hint_rules.jump_to_the_year_a_rule_starts", hint.map_or(false, |h| h.year() == tab[0].0 as i32 && h.ordinal() == 1 && d.year() < h.year()));
}

//@H unwindset="Iter<'_, std::option::Option<chrono::NaiveDate>> as std::iter::Iterator>::fold=5" props=C02,C08,C04 tier=quick kind=bounded cap=1800 mem=medium bound="expressions of 1 rule (all operators x kinds; one-year day selector; whole-day or part-day fixed span)" domain="all dates 1900..9999 x all skipped dates, all rule years"
#[cfg_attr(kani, kani::proof)]
#[cfg_attr(kani, kani::unwind(2))]
#[cfg_attr(kani, kani::stub(crate::filter::date_filter::valid_ymd_before, unreached_ymd_model))]
#[cfg_attr(kani, kani::stub(crate::filter::date_filter::valid_ymd_after, unreached_ymd_model))]
#[cfg_attr(kani, kani::stub(crate::utils::dates::easter, unreached_easter_model))]
#[cfg_attr(kani, kani::stub(crate::utils::dates::count_days_in_month, unreached_days_in_month_model))]
#[cfg_attr(kani, kani::stub(opening_hours_syntax::rules::day::DateOffset::apply, unreached_offset_model))]
#[cfg_attr(kani, kani::stub(compact_calendar::CompactCalendar::contains, unreached_contains_model))]
#[cfg_attr(kani, kani::stub(compact_calendar::CompactCalendar::first_after, unreached_first_after_model))]
#[cfg_attr(verif_replay, test)]
fn next_change_hint_with_1_rule() {
    hint_rules_body::<1>()
}

//@H unwindset="Iter<'_, std::option::Option<chrono::NaiveDate>> as std::iter::Iterator>::fold=5" props=C08,C04 tier=quick kind=bounded cap=1800 mem=medium bound="expressions of 1 rule (all operators x kinds; one-year day selector; whole-day or part-day fixed span)" domain="every date from year 1 to 1899-12-31, all rule years"
#[cfg_attr(kani, kani::proof)]
#[cfg_attr(kani, kani::unwind(2))]
#[cfg_attr(kani, kani::stub(crate::filter::date_filter::valid_ymd_before, unreached_ymd_model))]
#[cfg_attr(kani, kani::stub(crate::filter::date_filter::valid_ymd_after, unreached_ymd_model))]
#[cfg_attr(kani, kani::stub(crate::utils::dates::easter, unreached_easter_model))]
#[cfg_attr(kani, kani::stub(crate::utils::dates::count_days_in_month, unreached_days_in_month_model))]
#[cfg_attr(kani, kani::stub(opening_hours_syntax::rules::day::DateOffset::apply, unreached_offset_model))]
#[cfg_attr(kani, kani::stub(compact_calendar::CompactCalendar::contains, unreached_contains_model))]
#[cfg_attr(kani, kani::stub(compact_calendar::CompactCalendar::first_after, unreached_first_after_model))]
#[cfg_attr(verif_replay, test)]
fn next_change_hint_before_1900_with_1_rule() {
    hint_before_1900_body::<1>()
}

//@H unwindset="Iter<'_, std::option::Option<chrono::NaiveDate>> as std::iter::Iterator>::fold=5" props=C02,C08,C04 tier=thorough kind=bounded cap=3600 mem=medium bound="expressions of 2 rules (all operators x kinds; one-year day selectors; whole-day or part-day fixed spans)" domain="all dates 1900..9999 x all skipped dates, all rule years"
#[cfg_attr(kani, kani::proof)]
#[cfg_attr(kani, kani::unwind(3))]
#[cfg_attr(kani, kani::stub(crate::filter::date_filter::valid_ymd_before, unreached_ymd_model))]
#[cfg_attr(kani, kani::stub(crate::filter::date_filter::valid_ymd_after, unreached_ymd_model))]
#[cfg_attr(kani, kani::stub(crate::utils::dates::easter, unreached_easter_model))]
#[cfg_attr(kani, kani::stub(crate::utils::dates::count_days_in_month, unreached_days_in_month_model))]
#[cfg_attr(kani, kani::stub(opening_hours_syntax::rules::day::DateOffset::apply, unreached_offset_model))]
#[cfg_attr(kani, kani::stub(compact_calendar::CompactCalendar::contains, unreached_contains_model))]
#[cfg_attr(kani, kani::stub(compact_calendar::CompactCalendar::first_after, unreached_first_after_model))]
#[cfg_attr(verif_replay, test)]
fn next_change_hint_with_2_rules() {
    hint_rules_body::<2>()
}
