//! C02 (the `is_constant` shortcut that lets the interval iterator skip to the end of time):
//! contract in assert form for `OpeningHoursExpression::is_constant`.
//! Child module of `opening_hours_syntax::rules` (overlaid).
//!
//! Contract:  is_constant()  ==>  every day has the same single full-day kind, whatever the days matched by
//! the rules' day selectors.  "What a day evaluates to" is a spec fold over the rule list written from the
//! statement of C01 (a later normal open/unknown rule replaces earlier rules on the days it applies;
//! additional rules and closed rules overlay; a fallback rule applies only on days nothing else covered), over
//! the abstraction {Full(kind), Partial} of a rule's time selector, with one symbolic match bit per rule that has
//! a day selector (two independent bit vectors stand for "any two days").
use super::*;
use crate::rules::day::{DaySelector, WeekDayRange, Weekday};
use crate::rules::time::{TimeSelector, TimeSpan};
use crate::verif_nd as nd;
use crate::ExtendedTime;
use crate::{vcover, vpost};

#[derive(Clone, Copy, PartialEq, Eq, Debug)]
enum Shape {
    /// the whole day 00:00-24:00 has this kind
    Full(RuleKind),
    /// some other arrangement of the day (only part of the day covered)
    Partial,
}

#[derive(Clone, Copy)]
struct RuleAbs {
    operator: RuleOperator,
    kind: RuleKind,
    has_day_selector: bool,
    full_day: bool,
}

fn any_rule_abs() -> RuleAbs {
    RuleAbs {
        operator: match nd::u8() % 3 {
            0 => RuleOperator::Normal,
            1 => RuleOperator::Additional,
            _ => RuleOperator::Fallback,
        },
        kind: match nd::u8() % 3 {
            0 => RuleKind::Open,
            1 => RuleKind::Closed,
            _ => RuleKind::Unknown,
        },
        has_day_selector: nd::bool(),
        full_day: nd::bool(),
    }
}

fn concrete(r: RuleAbs) -> RuleSequence {
    let day_selector = if r.has_day_selector {
        DaySelector {
            weekday: vec![WeekDayRange::Fixed {
                range: Weekday::Mon..=Weekday::Fri,
                offset: 0,
                nth_from_start: [true; 5],
                nth_from_end: [true; 5],
            }],
            ..Default::default()
        }
    } else {
        DaySelector::default()
    };
    let time_selector = if r.full_day {
        TimeSelector::default()
    } else {
        TimeSelector::new(vec![TimeSpan::fixed_range(
            ExtendedTime::new(10, 0).unwrap(),
            ExtendedTime::new(12, 0).unwrap(),
        )])
    };
    RuleSequence { day_selector, time_selector, kind: r.kind, operator: r.operator, comments: Default::default() }
}

/// overlay `top` on `below`
fn overlay(below: Option<Shape>, top: Shape) -> Shape {
    match (below, top) {
        (_, Shape::Full(k)) => Shape::Full(k),
        (None, Shape::Partial) => Shape::Partial,
        // a partial overlay leaves part of the day as it was: not a single full-day kind any more,
        // except that closed-over-closed stays closed; conservatively Partial
        (Some(_), Shape::Partial) => Shape::Partial,
    }
}

fn always_closed(s: Option<Shape>) -> bool {
    matches!(s, Some(Shape::Full(RuleKind::Closed)))
}

/// what a day evaluates to when rule i matches the day iff `matches[i]` (rules without a day selector match every day)
fn day_result<const N: usize>(rules: &[RuleAbs; N], matches: &[bool; N]) -> Shape {
    let mut state: Option<Shape> = None;
    let mut covered = false;
    let mut i = 0;
    while i < N {
        let r = rules[i];
        let m = !r.has_day_selector || matches[i];
        let shape = if r.full_day { Shape::Full(r.kind) } else { Shape::Partial };
        match (r.operator, r.kind) {
            (RuleOperator::Normal, RuleKind::Open | RuleKind::Unknown) => {
                if m {
                    state = Some(shape);
                    covered = true;
                }
            }
            (RuleOperator::Additional, _) | (RuleOperator::Normal, RuleKind::Closed) => {
                if m {
                    state = Some(overlay(state, shape));
                    covered = true;
                }
            }
            (RuleOperator::Fallback, _) => {
                // applies only on days nothing else covered (a day evaluated entirely closed counts as not covered)
                if !(covered && !always_closed(state)) {
                    state = if m { Some(shape) } else { None };
                    covered = m;
                }
            }
        }
        i += 1;
    }
    // a day no rule says anything about is closed
    state.unwrap_or(Shape::Full(RuleKind::Closed))
}

fn is_constant_n<const N: usize>() {
    let mut rules = [RuleAbs { operator: RuleOperator::Normal, kind: RuleKind::Open, has_day_selector: false, full_day: true }; N];
    let mut day_a = [false; N];
    let mut day_b = [false; N];
    let mut i = 0;
    while i < N {
        rules[i] = any_rule_abs();
        day_a[i] = nd::bool();
        day_b[i] = nd::bool();
        i += 1;
    }
    let mut list = Vec::with_capacity(N);
    let mut i = 0;
    while i < N {
        list.push(concrete(rules[i]));
        i += 1;
    }
    let expr = OpeningHoursExpression { rules: list };
    let claimed = expr.is_constant();
    let (ra, rb) = (day_result(&rules, &day_a), day_result(&rules, &day_b));
    if claimed {
        vpost!("C02.is_constant.implies_every_day_is_one_single_full_day_kind", ra != Shape::Partial && ra == rb);
    }
    vcover!("is_constant.true", claimed);
    vcover!("is_constant.false", N == 0 || !claimed);
    vcover!("is_constant.true_with_day_selector_rule", N < 2 || (claimed && rules[N - 1].has_day_selector));
    vcover!("is_constant.fallback_tail", N < 2 || rules[N - 1].operator == RuleOperator::Fallback);
}

//@H props=C02,C04 tier=quick kind=bounded cap=900 bound="1 rule" domain="all operators x kinds x {with, without day selector} x {00:00-24:00, other span}"
#[cfg_attr(kani, kani::proof)]
#[cfg_attr(kani, kani::unwind(4))]
#[cfg_attr(verif_replay, test)]
fn is_constant_1() {
    is_constant_n::<1>()
}

//@H props=C02,C04 tier=quick kind=bounded cap=1800 mem=medium bound="2 rules" domain="all operators x kinds x {with, without day selector} x {00:00-24:00, other span}; any two days"
#[cfg_attr(kani, kani::proof)]
#[cfg_attr(kani, kani::unwind(5))]
#[cfg_attr(verif_replay, test)]
fn is_constant_2() {
    is_constant_n::<2>()
}

//@H props=C02,C04 tier=quick kind=bounded cap=1800 mem=medium bound="3 rules" domain="all operators x kinds x {with, without day selector} x {00:00-24:00, other span}; any two days"
#[cfg_attr(kani, kani::proof)]
#[cfg_attr(kani, kani::unwind(6))]
#[cfg_attr(verif_replay, test)]
fn is_constant_3() {
    is_constant_n::<3>()
}
