//! C19 (and the ExtendedTime part of C04): contracts and harnesses for `ExtendedTime`.
//! Child module of `opening_hours_syntax::extended_time` (overlaid), so private fields are visible.
use super::*;
use crate::verif_nd as nd;
use crate::{vcover, vpost};

/// Type invariant: 00:00 ..= 48:00, minute below 60.
pub(crate) fn wf(t: ExtendedTime) -> bool {
    t.hour <= 48 && t.minute <= 59 && (t.hour < 48 || t.minute == 0)
}

/// Abstract view: minutes since midnight as a mathematical (wide) integer.
pub(crate) fn mins(t: ExtendedTime) -> i64 {
    60 * (t.hour as i64) + (t.minute as i64)
}

fn any_raw_time() -> ExtendedTime {
    ExtendedTime { hour: nd::u8(), minute: nd::u8() }
}

pub(crate) fn any_time() -> ExtendedTime {
    let t = any_raw_time();
    nd::assume(wf(t));
    t
}

#[cfg(kani)]
impl kani::Arbitrary for ExtendedTime {
    fn any() -> Self {
        let t = ExtendedTime { hour: kani::any(), minute: kani::any() };
        kani::assume(wf(t));
        t
    }
}

// ---- contract predicates (referenced by the overlaid #[kani::ensures] attributes) --------------------

pub(crate) fn post_mins_from_midnight(t: ExtendedTime, r: &u16) -> bool {
    *r as i64 == mins(t) && *r <= 48 * 60
}

pub(crate) fn post_from_mins(n: u16, r: &Option<ExtendedTime>) -> bool {
    r.is_some() == (n <= 48 * 60)
        && match r {
            Some(t) => wf(*t) && mins(*t) == n as i64,
            None => true,
        }
}

pub(crate) fn post_add_minutes(t: ExtendedTime, d: i16, r: &Option<ExtendedTime>) -> bool {
    let sum = mins(t) + d as i64;
    r.is_some() == (0 <= sum && sum <= 48 * 60)
        && match r {
            Some(x) => wf(*x) && mins(*x) == sum,
            None => true,
        }
}

pub(crate) fn post_add_hours(t: ExtendedTime, h: i8, r: &Option<ExtendedTime>) -> bool {
    let sum = mins(t) + 60 * h as i64;
    r.is_some() == (0 <= sum && sum <= 48 * 60)
        && match r {
            Some(x) => wf(*x) && mins(*x) == sum,
            None => true,
        }
}

// ---- harnesses -----------------------------------------------------------------------------------

//@H props=C19,C04 tier=quick kind=complete cap=300 domain="all u8 x u8"
#[cfg_attr(kani, kani::proof)]
#[cfg_attr(verif_replay, test)]
fn et_new() {
    let (h, m) = (nd::u8(), nd::u8());
    let r = ExtendedTime::new(h, m);
    let in_range = (h as u32) * 60 + (m as u32) <= 48 * 60 && m < 60;
    vpost!("C19.new.some_iff_0000_to_4800_and_minute_below_60", r.is_some() == in_range);
    if let Some(t) = r {
        vpost!("C19.new.fields_preserved", t.hour() == h && t.minute() == m && wf(t));
    }
    vcover!("et_new.some", r.is_some());
    vcover!("et_new.none", r.is_none());
    vcover!("et_new.4800", h == 48 && r.is_some());
}

//@H props=C19,C04 tier=quick kind=complete cap=300 domain="all wf times"
#[cfg_attr(kani, kani::proof_for_contract(ExtendedTime::mins_from_midnight))]
#[cfg_attr(verif_replay, test)]
fn et_mins_from_midnight() {
    let t = any_time();
    let r = t.mins_from_midnight();
    vpost!("C19.mins_from_midnight.eq_60h_plus_m", post_mins_from_midnight(t, &r));
    vpost!("C19.roundtrip.from_mins_of_mins_is_identity", ExtendedTime::from_mins_from_midnight(r) == Some(t));
    vcover!("et_mins.reachable", true);
}

//@H props=C19,C04 tier=quick kind=complete cap=300 domain="all u16"
#[cfg_attr(kani, kani::proof_for_contract(ExtendedTime::from_mins_from_midnight))]
#[cfg_attr(verif_replay, test)]
fn et_from_mins() {
    let n = nd::u16();
    let r = ExtendedTime::from_mins_from_midnight(n);
    vpost!("C19.from_mins.some_iff_le_2880_and_view", post_from_mins(n, &r));
    if let Some(t) = r {
        vpost!("C19.roundtrip.mins_of_from_mins_is_identity", t.mins_from_midnight() == n);
    }
    vcover!("et_from_mins.some", r.is_some());
    vcover!("et_from_mins.none", r.is_none());
}

//@H props=C19,C04 tier=quick kind=complete cap=300 domain="all wf times x all i16"
#[cfg_attr(kani, kani::proof_for_contract(ExtendedTime::add_minutes))]
#[cfg_attr(verif_replay, test)]
fn et_add_minutes() {
    let t = any_time();
    let d = nd::i16();
    let r = t.add_minutes(d);
    vpost!("C19.add_minutes.eq_integer_addition_none_iff_out_of_range", post_add_minutes(t, d, &r));
    vcover!("et_add_minutes.some_neg", r.is_some() && d < 0);
    vcover!("et_add_minutes.some_pos", r.is_some() && d > 0);
    vcover!("et_add_minutes.none_low", r.is_none() && d < 0);
    vcover!("et_add_minutes.none_high", r.is_none() && d > 0);
}

//@H props=C19,C04 tier=quick kind=complete cap=300 domain="all wf times x all i8"
#[cfg_attr(kani, kani::proof_for_contract(ExtendedTime::add_hours))]
#[cfg_attr(verif_replay, test)]
fn et_add_hours() {
    let t = any_time();
    let h = nd::i8();
    let r = t.add_hours(h);
    vpost!("C19.add_hours.eq_integer_addition_none_iff_out_of_range", post_add_hours(t, h, &r));
    vcover!("et_add_hours.some_neg", r.is_some() && h < 0);
    vcover!("et_add_hours.some_pos", r.is_some() && h > 0);
    vcover!("et_add_hours.none_low", r.is_none() && h < 0);
    vcover!("et_add_hours.none_high", r.is_none() && h > 0);
}

//@H props=C19 tier=quick kind=complete cap=300 domain="all pairs of wf times"
#[cfg_attr(kani, kani::proof)]
#[cfg_attr(verif_replay, test)]
fn et_ord() {
    let a = any_time();
    let b = any_time();
    vpost!("C19.ord.lt_is_minute_order", (a < b) == (mins(a) < mins(b)));
    vpost!("C19.ord.le_is_minute_order", (a <= b) == (mins(a) <= mins(b)));
    vpost!("C19.ord.eq_is_minute_equality", (a == b) == (mins(a) == mins(b)));
    vpost!("C19.ord.cmp_is_minute_cmp", a.cmp(&b) == mins(a).cmp(&mins(b)));
    vpost!("C19.ord.max_min", mins(a.max(b)) == mins(a).max(mins(b)) && mins(a.min(b)) == mins(a).min(mins(b)));
    vcover!("et_ord.lt", a < b);
    vcover!("et_ord.same_hour", a.hour == b.hour && a.minute != b.minute);
}

//@H props=C19,C04 tier=quick kind=complete cap=300 domain="all wf times; all NaiveTime h:m:s"
#[cfg_attr(kani, kani::proof)]
#[cfg_attr(verif_replay, test)]
fn et_naive_time() {
    let t = any_time();
    let (h, m, s) = (nd::u32(), nd::u32(), nd::u32());
    let r: Result<NaiveTime, ()> = t.try_into();
    vpost!("C19.to_clock_time.succeeds_exactly_below_2400", r.is_ok() == (mins(t) < 24 * 60));
    if let Ok(nt) = r {
        vpost!(
            "C19.to_clock_time.same_hour_minute",
            nt.hour() == t.hour as u32 && nt.minute() == t.minute as u32 && nt.second() == 0,
        );
        vpost!("C19.to_clock_time.roundtrip", ExtendedTime::from(nt) == t);
    }
    if let Some(nt) = NaiveTime::from_hms_opt(h, m, s) {
        let e = ExtendedTime::from(nt);
        vpost!("C19.from_clock_time.wf_same_hour_minute", wf(e) && e.hour as u32 == h && e.minute as u32 == m);
        vcover!("et_naive.from_some", true);
    }
    vcover!("et_naive.ok", r.is_ok());
    vcover!("et_naive.err", r.is_err());
}

//@H props=ENGINE tier=quick kind=canary cap=120 expect=fail
#[cfg_attr(kani, kani::proof)]
#[cfg_attr(verif_replay, test)]
fn canary_et_must_fail() {
    let t = any_time();
    vpost!("CANARY.syntax.must_fail", mins(t) != 1234);
}
