//! C01 / C04: contract in assert form for `DateOffset::apply` (date offsets `+Su`, `-Mo`, `+2 days` of dated
//! ranges).  Child module of `opening_hours_syntax::rules::day` (overlaid).
use super::*;
use crate::verif_nd as nd;
use crate::{vcover, vpost};

fn any_date() -> NaiveDate {
    let y = nd::i32();
    let o = nd::u32();
    nd::assume(1900 <= y && y <= 9999 && 1 <= o && o <= 366);
    let d = NaiveDate::from_yo_opt(y, o);
    nd::assume(d.is_some());
    d.unwrap()
}

fn any_weekday() -> Weekday {
    let w = nd::u8();
    nd::assume(w < 7);
    Weekday::try_from(w).unwrap()
}

fn apply_body(day_offset: i64) {
    let target = any_weekday();
    let wday_offset = match nd::u8() % 3 {
        0 => WeekDayOffset::None,
        1 => WeekDayOffset::Next(target),
        _ => WeekDayOffset::Prev(target),
    };
    let d = any_date();
    let r = DateOffset { wday_offset, day_offset }.apply(d);
    let base = d + Duration::days(day_offset);
    match wday_offset {
        WeekDayOffset::None => vpost!("C01.date_offset.plain_day_offset_is_date_plus_days", r == base),
        WeekDayOffset::Next(t) => {
            let dist = (r - base).num_days();
            vpost!("C01.date_offset.next_weekday_is_the_first_such_day_not_before", 0 <= dist && dist <= 6 && r.weekday() == t);
        }
        WeekDayOffset::Prev(t) => {
            let dist = (base - r).num_days();
            vpost!("C01.date_offset.prev_weekday_is_the_last_such_day_not_after", 0 <= dist && dist <= 6 && r.weekday() == t);
        }
    }
    vcover!("date_offset.already_on_target", wday_offset != WeekDayOffset::None && r == base);
    vcover!("date_offset.six_days", matches!(wday_offset, WeekDayOffset::Next(_)) && (r - base).num_days() == 6);
}

//@H tier_C04=thorough props=C01,C04 tier=quick kind=complete cap=1500 domain="day offset 0: all weekday offsets x all dates 1900..9999"
#[cfg_attr(kani, kani::proof)]
#[cfg_attr(verif_replay, test)]
fn date_offset_apply_no_day_offset() {
    apply_body(0)
}

//@H props=C01,C04 tier=deep kind=bounded cap=3000 mem=medium bound="|day offset| <= 2" domain="all weekday offsets x all dates 1900..9999"
#[cfg_attr(kani, kani::proof)]
#[cfg_attr(verif_replay, test)]
fn date_offset_apply_small_day_offset() {
    let o = nd::i64();
    nd::assume(-2 <= o && o <= 2);
    apply_body(o)
}
