//! C01 / C04: contract in assert form for `DateOffset::apply` (date offsets `+Su`, `-Mo`, `+2 days` of dated
//! ranges).  Child module of `opening_hours_syntax::rules::day` (overlaid).
use super::*;
use crate::verif_nd as nd;
use crate::{vcover, vpost};

fn any_date() -> NaiveDate {
    let y = nd::i32();
    let o = nd::u32();
    nd::assume(1900 <= y && y <= 9999 && 1 <= o && o <= 366);
    let d = NaiveDate::from_yo_opt(y, o);
    nd::assume(d.is_some());
    d.unwrap()
}

fn any_weekday() -> Weekday {
    let w = nd::u8();
    nd::assume(w < 7);
    Weekday::try_from(w).unwrap()
}

/// `which`: 0 = no weekday offset, 1 = `+Xx`, 2 = `-Xx`; returns (offset applied, date + day offset, result)
fn apply_any(day_offset: i64, which: u8) -> (WeekDayOffset, NaiveDate, NaiveDate) {
    let target = any_weekday();
    let wday_offset = match which {
        0 => WeekDayOffset::None,
        1 => WeekDayOffset::Next(target),
        _ => WeekDayOffset::Prev(target),
    };
    let d = any_date();
    let r = DateOffset { wday_offset, day_offset }.apply(d);
    (wday_offset, d + Duration::days(day_offset), r)
}

fn plain_body(day_offset: i64) {
    let (_, base, r) = apply_any(day_offset, 0);
    vpost!("C01.date_offset.plain_day_offset_is_date_plus_days", r == base);
    vcover!("date_offset.plain.reachable", true);
}

fn next_body(day_offset: i64) {
    let (w, base, r) = apply_any(day_offset, 1);
    let dist = (r - base).num_days();
    vpost!("C01.date_offset.next_weekday_is_the_first_such_day_not_before", 0 <= dist && dist <= 6 && WeekDayOffset::Next(r.weekday()) == w);
    vcover!("date_offset.next.already_on_target", r == base);
    vcover!("date_offset.next.six_days", dist == 6);
}

fn prev_body(day_offset: i64) {
    let (w, base, r) = apply_any(day_offset, 2);
    let dist = (base - r).num_days();
    vpost!("C01.date_offset.prev_weekday_is_the_last_such_day_not_after", 0 <= dist && dist <= 6 && WeekDayOffset::Prev(r.weekday()) == w);
    vcover!("date_offset.prev.already_on_target", r == base);
    vcover!("date_offset.prev.six_days_back", dist == 6);
}

fn small_offset() -> i64 {
    let o = nd::i64();
    nd::assume(-2 <= o && o <= 2);
    o
}

//@H props=C01,C02,C04,C08 tier=quick kind=complete cap=900 domain="day offset 0, no weekday offset: all dates 1900..9999"
#[cfg_attr(kani, kani::proof)]
#[cfg_attr(verif_replay, test)]
fn date_offset_apply_plain() {
    plain_body(0)
}

//@H props=C01,C04 tier=quick kind=complete cap=1500 domain="day offset 0, `+Xx` weekday offsets: all target weekdays x all dates 1900..9999"
#[cfg_attr(kani, kani::proof)]
#[cfg_attr(verif_replay, test)]
fn date_offset_apply_next_weekday() {
    next_body(0)
}

//@H props=C01,C04 tier=quick kind=complete cap=1500 domain="day offset 0, `-Xx` weekday offsets: all target weekdays x all dates 1900..9999"
#[cfg_attr(kani, kani::proof)]
#[cfg_attr(verif_replay, test)]
fn date_offset_apply_prev_weekday() {
    prev_body(0)
}

//@H props=C01,C04 tier=thorough kind=bounded cap=3000 bound="|day offset| <= 2" domain="no weekday offset x all dates 1900..9999"
#[cfg_attr(kani, kani::proof)]
#[cfg_attr(verif_replay, test)]
fn date_offset_apply_small_day_offset_plain() {
    plain_body(small_offset())
}

//@H props=C01,C04 tier=thorough kind=bounded cap=3000 bound="|day offset| <= 2" domain="`+Xx` weekday offsets x all dates 1900..9999"
#[cfg_attr(kani, kani::proof)]
#[cfg_attr(verif_replay, test)]
fn date_offset_apply_small_day_offset_next_weekday() {
    next_body(small_offset())
}

//@H props=C01,C04 tier=thorough kind=bounded cap=3000 bound="|day offset| <= 2" domain="`-Xx` weekday offsets x all dates 1900..9999"
#[cfg_attr(kani, kani::proof)]
#[cfg_attr(verif_replay, test)]
fn date_offset_apply_small_day_offset_prev_weekday() {
    prev_body(small_offset())
}
