//! C20: contracts (assert form) and harnesses for `UniqueSortedVec`, element type `u8` with every value
//! symbolic, operand lengths concrete per harness (const generics) - labelled bounded.
//! Child module of `opening_hours_syntax::sorted_vec` (overlaid): the private field is visible, so operands
//! can be any value satisfying the type invariant, not only ones reachable through `From`.
//!
//! The type invariant (`strictly_increasing`) is a precondition of `union`, `contains` and
//! `find_first_following`: the field is private and `Deref` exposes `&Vec` only, so the constructors
//! (`new`, `from`, `union`, `to_ref`, `Default`, `Clone`) are the complete list of places that establish it.
use super::*;
use crate::verif_nd as nd;
use crate::{vcover, vpost};

pub(crate) fn strictly_increasing(v: &[u8]) -> bool {
    let mut i = 1;
    while i < v.len() {
        if v[i - 1] >= v[i] {
            return false;
        }
        i += 1;
    }
    true
}

pub(crate) fn mem(v: &[u8], q: u8) -> bool {
    let mut i = 0;
    while i < v.len() {
        if v[i] == q {
            return true;
        }
        i += 1;
    }
    false
}

fn any_vec<const N: usize>() -> Vec<u8> {
    // `Vec::new()` + push (capacity 8 for u8), as the parser builds them
    let mut v = Vec::new();
    let mut i = 0;
    while i < N {
        v.push(nd::u8());
        i += 1;
    }
    v
}

/// any value of the type: N elements, strictly increasing
fn any_usv<const N: usize>() -> UniqueSortedVec<u8> {
    let v = any_vec::<N>();
    nd::assume(strictly_increasing(&v));
    UniqueSortedVec(v)
}

fn first(v: &[u8]) -> u8 {
    if v.is_empty() { 0 } else { v[0] }
}

fn last(v: &[u8]) -> u8 {
    if v.is_empty() { 0 } else { v[v.len() - 1] }
}

// ---- From<Vec<T>> ---------------------------------------------------------------------------------

fn from_n<const N: usize>() {
    let v = any_vec::<N>();
    let q = nd::u8();
    let input = v.clone();
    let r: UniqueSortedVec<u8> = v.into();
    vpost!("C20.from.result_is_strictly_increasing", strictly_increasing(&r.0));
    vpost!("C20.from.holds_exactly_the_distinct_elements", mem(&r.0, q) == mem(&input, q));
    vpost!("C20.from.no_longer_than_input", r.0.len() <= N);
    vcover!("from.had_duplicates", N < 2 || r.0.len() < N);
    vcover!("from.was_unsorted", N < 2 || (r.0.len() == N && input[0] > input[1]));
    vcover!("from.sorted_input_with_duplicate", N < 3 || (input[0] == input[1] && input[1] < input[2]));
}

//@H props=C20,C17,C04 tier=quick kind=bounded cap=600 bound="vector length 0" domain="all u8 values"
#[cfg_attr(kani, kani::proof)]
#[cfg_attr(kani, kani::unwind(8))]
#[cfg_attr(verif_replay, test)]
fn usv_from_0() {
    from_n::<0>()
}

//@H props=C20,C17,C04 tier=quick kind=bounded cap=600 bound="vector length 1" domain="all u8 values"
#[cfg_attr(kani, kani::proof)]
#[cfg_attr(kani, kani::unwind(8))]
#[cfg_attr(verif_replay, test)]
fn usv_from_1() {
    from_n::<1>()
}

//@H props=C20,C17,C04 tier=quick kind=bounded cap=600 bound="vector length 2" domain="all u8 values"
#[cfg_attr(kani, kani::proof)]
#[cfg_attr(kani, kani::unwind(8))]
#[cfg_attr(verif_replay, test)]
fn usv_from_2() {
    from_n::<2>()
}

//@H props=C20,C17,C04 tier=quick kind=bounded cap=900 bound="vector length 3" domain="all u8 values"
#[cfg_attr(kani, kani::proof)]
#[cfg_attr(kani, kani::unwind(8))]
#[cfg_attr(verif_replay, test)]
fn usv_from_3() {
    from_n::<3>()
}

//@H props=C20,C17,C04 tier=deep kind=bounded cap=2400 bound="vector length 4" domain="all u8 values"
#[cfg_attr(kani, kani::proof)]
#[cfg_attr(kani, kani::unwind(8))]
#[cfg_attr(verif_replay, test)]
fn usv_from_4() {
    from_n::<4>()
}

// ---- union ----------------------------------------------------------------------------------------

fn union_nm<const N: usize, const M: usize>() {
    let a = any_usv::<N>();
    let b = any_usv::<M>();
    let q = nd::u8();
    let (ia, ib) = (a.0.clone(), b.0.clone());
    let r = a.union(b);
    vpost!("C20.union.result_is_strictly_increasing", strictly_increasing(&r.0));
    vpost!("C20.union.is_exactly_the_set_union", mem(&r.0, q) == (mem(&ia, q) || mem(&ib, q)));
    vpost!("C20.union.no_longer_than_both", r.0.len() <= N + M);
    let trivial = N == 0 || M == 0;
    let (a0, a9) = (first(&ia), last(&ia));
    let (b0, b9) = (first(&ib), last(&ib));
    vcover!("union.arm_disjoint_left_below_right", trivial || a9 < b0);
    vcover!("union.arm_disjoint_right_below_left", trivial || b9 < a0);
    vcover!("union.arm_tail_equal", trivial || a9 == b9);
    vcover!("union.arm_tail_greater", trivial || N < 2 || (a9 > b9 && b9 >= a0));
    vcover!("union.arm_tail_less", trivial || M < 2 || (a9 < b9 && a9 >= b0));
    vcover!("union.boundary_value_shared", trivial || b9 == a0);
    vcover!("union.reachable", true);
}

//@H props=C20,C17,C04 tier=quick kind=bounded cap=600 bound="operand lengths (0,2)" domain="all u8 values"
#[cfg_attr(kani, kani::proof)]
#[cfg_attr(kani, kani::unwind(9))]
#[cfg_attr(verif_replay, test)]
fn usv_union_0_2() {
    union_nm::<0, 2>()
}

//@H props=C20,C17,C04 tier=quick kind=bounded cap=600 bound="operand lengths (2,0)" domain="all u8 values"
#[cfg_attr(kani, kani::proof)]
#[cfg_attr(kani, kani::unwind(9))]
#[cfg_attr(verif_replay, test)]
fn usv_union_2_0() {
    union_nm::<2, 0>()
}

//@H tier_C04=thorough props=C20,C17,C04 tier=quick kind=bounded cap=900 bound="operand lengths (1,1)" domain="all u8 values"
#[cfg_attr(kani, kani::proof)]
#[cfg_attr(kani, kani::unwind(9))]
#[cfg_attr(verif_replay, test)]
fn usv_union_1_1() {
    union_nm::<1, 1>()
}

//@H tier_C04=thorough tier_C17=thorough props=C20,C17,C04 tier=quick kind=bounded cap=1200 bound="operand lengths (1,2)" domain="all u8 values"
#[cfg_attr(kani, kani::proof)]
#[cfg_attr(kani, kani::unwind(9))]
#[cfg_attr(verif_replay, test)]
fn usv_union_1_2() {
    union_nm::<1, 2>()
}

//@H tier_C04=thorough tier_C17=thorough props=C20,C17,C04 tier=quick kind=bounded cap=1200 bound="operand lengths (2,1)" domain="all u8 values"
#[cfg_attr(kani, kani::proof)]
#[cfg_attr(kani, kani::unwind(9))]
#[cfg_attr(verif_replay, test)]
fn usv_union_2_1() {
    union_nm::<2, 1>()
}

//@H tier_C17=thorough tier_C04=thorough props=C20,C17,C04 tier=quick kind=bounded cap=1500 bound="operand lengths (2,2)" domain="all u8 values"
#[cfg_attr(kani, kani::proof)]
#[cfg_attr(kani, kani::unwind(9))]
#[cfg_attr(verif_replay, test)]
fn usv_union_2_2() {
    union_nm::<2, 2>()
}

//@H props=C20,C17,C04 tier=deep kind=bounded cap=3000 bound="operand lengths (3,2)" domain="all u8 values"
#[cfg_attr(kani, kani::proof)]
#[cfg_attr(kani, kani::unwind(9))]
#[cfg_attr(verif_replay, test)]
fn usv_union_3_2() {
    union_nm::<3, 2>()
}

//@H props=C20,C17,C04 tier=deep kind=bounded cap=3000 bound="operand lengths (2,3)" domain="all u8 values"
#[cfg_attr(kani, kani::proof)]
#[cfg_attr(kani, kani::unwind(9))]
#[cfg_attr(verif_replay, test)]
fn usv_union_2_3() {
    union_nm::<2, 3>()
}

//@H props=C20,C17,C04 tier=deep kind=bounded cap=3600 mem=medium bound="operand lengths (3,3)" domain="all u8 values"
#[cfg_attr(kani, kani::proof)]
#[cfg_attr(kani, kani::unwind(9))]
#[cfg_attr(verif_replay, test)]
fn usv_union_3_3() {
    union_nm::<3, 3>()
}


// ---- contains / find_first_following ----------------------------------------------------------------

fn search_n<const N: usize>() {
    let a = any_usv::<N>();
    let x = nd::u8();
    let q = nd::u8();
    vpost!("C20.contains.agrees_with_membership", a.contains(&x) == mem(&a.0, x));
    let f = a.find_first_following(&x);
    let (member_not_smaller, least_such, none_ok) = match f {
        Some(r) => (*r >= x && mem(&a.0, *r), !(q >= x && q < *r && mem(&a.0, q)), true),
        None => (true, true, !(q >= x && mem(&a.0, q))),
    };
    vpost!("C20.find_first_following.is_a_member_not_smaller", member_not_smaller);
    vpost!("C20.find_first_following.is_the_least_such", least_such);
    vpost!("C20.find_first_following.none_iff_all_smaller", none_ok);
    vcover!("search.found_exact", N == 0 || f == Some(&x));
    vcover!("search.found_greater", N == 0 || matches!(f, Some(r) if *r > x));
    vcover!("search.none", f.is_none());
}

//@H props=C20,C04 tier=quick kind=bounded cap=600 bound="length 0" domain="all u8 values"
#[cfg_attr(kani, kani::proof)]
#[cfg_attr(kani, kani::unwind(8))]
#[cfg_attr(verif_replay, test)]
fn usv_search_0() {
    search_n::<0>()
}

//@H props=C20,C04 tier=quick kind=bounded cap=600 bound="length 1" domain="all u8 values"
#[cfg_attr(kani, kani::proof)]
#[cfg_attr(kani, kani::unwind(8))]
#[cfg_attr(verif_replay, test)]
fn usv_search_1() {
    search_n::<1>()
}

//@H props=C20,C04 tier=quick kind=bounded cap=900 bound="length 3" domain="all u8 values"
#[cfg_attr(kani, kani::proof)]
#[cfg_attr(kani, kani::unwind(8))]
#[cfg_attr(verif_replay, test)]
fn usv_search_3() {
    search_n::<3>()
}

//@H props=C20,C04 tier=quick kind=bounded cap=1200 bound="length 4" domain="all u8 values"
#[cfg_attr(kani, kani::proof)]
#[cfg_attr(kani, kani::unwind(8))]
#[cfg_attr(verif_replay, test)]
fn usv_search_4() {
    search_n::<4>()
}

//@H props=C20 tier=quick kind=bounded cap=600 bound="length 3" domain="all u8 values; new/default/clone/to_ref/Vec::from keep the invariant and the elements"
#[cfg_attr(kani, kani::proof)]
#[cfg_attr(kani, kani::unwind(8))]
#[cfg_attr(verif_replay, test)]
fn usv_other_constructors() {
    let a = any_usv::<3>();
    let e: UniqueSortedVec<u8> = UniqueSortedVec::new();
    let d: UniqueSortedVec<u8> = UniqueSortedVec::default();
    vpost!("C20.new.is_empty", e.0.is_empty() && d.0.is_empty());
    let c = a.clone();
    vpost!("C20.clone.same_elements", c.0 == a.0 && strictly_increasing(&c.0));
    let r: UniqueSortedVec<&u8> = a.to_ref();
    vpost!("C20.to_ref.same_elements_in_order", r.0.len() == 3 && *r.0[0] == a.0[0] && *r.0[1] == a.0[1] && *r.0[2] == a.0[2]);
    let expect = a.0.clone();
    let back: Vec<u8> = a.into();
    vpost!("C20.into_vec.same_elements", back == expect);
    vcover!("usv_other.reachable", true);
}

//@H props=ENGINE tier=quick kind=canary cap=120 expect=fail
#[cfg_attr(kani, kani::proof)]
#[cfg_attr(kani, kani::unwind(8))]
#[cfg_attr(verif_replay, test)]
fn canary_sorted_vec_must_fail() {
    let a = any_usv::<2>();
    vpost!("CANARY.sorted_vec.must_fail", a.0[0] != 77);
}
