//! Input / obligation API shared by every harness.
//!
//! * under `cfg(kani)`  : inputs are `kani::any()`, obligations are `kani::assert`, covers are `kani::cover`.
//! * under `cfg(verif_replay)` (native `cargo test`): inputs are read, in call order, from the
//!   environment variable `VERIF_REPLAY_VALUES` (comma separated integers) — the values the verifier's
//!   counterexample assigned to the same calls — and a failed obligation panics with its name, so the
//!   named obligation is re-evaluated on the result of the real function.
//!
//! Convention: a harness draws *all* its inputs through this module before it calls the code under
//! contract, so the first N nondeterministic values of a CBMC trace are exactly the harness inputs.
#![allow(dead_code)]

#[cfg(kani)]
mod imp {
    #[inline(never)]
    pub fn u8() -> u8 { let verif_nd_value: u8 = kani::any(); verif_nd_value }
    #[inline(never)]
    pub fn u16() -> u16 { let verif_nd_value: u16 = kani::any(); verif_nd_value }
    #[inline(never)]
    pub fn u32() -> u32 { let verif_nd_value: u32 = kani::any(); verif_nd_value }
    #[inline(never)]
    pub fn u64() -> u64 { let verif_nd_value: u64 = kani::any(); verif_nd_value }
    #[inline(never)]
    pub fn i8() -> i8 { let verif_nd_value: i8 = kani::any(); verif_nd_value }
    #[inline(never)]
    pub fn i16() -> i16 { let verif_nd_value: i16 = kani::any(); verif_nd_value }
    #[inline(never)]
    pub fn i32() -> i32 { let verif_nd_value: i32 = kani::any(); verif_nd_value }
    #[inline(never)]
    pub fn i64() -> i64 { let verif_nd_value: i64 = kani::any(); verif_nd_value }
    #[inline(never)]
    pub fn bool() -> bool { let verif_nd_value: u8 = kani::any(); verif_nd_value & 1 == 1 }
    pub fn assume(b: bool) { kani::assume(b) }
}

#[cfg(not(kani))]
mod imp {
    use std::cell::RefCell;
    thread_local! {
        static VALUES: RefCell<Option<std::collections::VecDeque<(String, i128)>>> = const { RefCell::new(None) };
    }
    /// Values are `type:value` pairs in call order.  CBMC leaves draws that cannot influence the failure out
    /// of its trace; such a draw is recognised by its type not matching the next recorded one and gets 0.
    fn next(ty: &str) -> i128 {
        VALUES.with(|v| {
            let mut v = v.borrow_mut();
            if v.is_none() {
                let raw = std::env::var("VERIF_REPLAY_VALUES").unwrap_or_default();
                *v = Some(
                    raw.split(',')
                        .filter(|s| !s.trim().is_empty())
                        .map(|s| {
                            let (t, x) = s.trim().split_once(':').unwrap_or(("", s.trim()));
                            (t.to_string(), x.parse::<i128>().expect("VERIF_REPLAY_VALUES: integer"))
                        })
                        .collect(),
                );
            }
            let q = v.as_mut().unwrap();
            match q.front() {
                Some((t, _)) if t.is_empty() || t == ty => q.pop_front().unwrap().1,
                _ => 0,
            }
        })
    }
    pub fn u8() -> u8 { next("u8") as u8 }
    pub fn u16() -> u16 { next("u16") as u16 }
    pub fn u32() -> u32 { next("u32") as u32 }
    pub fn u64() -> u64 { next("u64") as u64 }
    pub fn i8() -> i8 { next("i8") as i8 }
    pub fn i16() -> i16 { next("i16") as i16 }
    pub fn i32() -> i32 { next("i32") as i32 }
    pub fn i64() -> i64 { next("i64") as i64 }
    pub fn bool() -> bool { (next("bool") as u8) & 1 == 1 }
    pub fn assume(b: bool) {
        if !b {
            println!("VERIF_REPLAY: assumption not satisfied by the replayed values");
            std::process::exit(4)
        }
    }
    pub fn post_native(name: &'static str, cond: bool) {
        if !cond {
            println!("VERIF_REPLAY: obligation failed: {name}");
            panic!("obligation failed: {name}")
        }
    }
}

pub use imp::*;

/// Named obligation: `vpost!("C19.new.some_iff", cond)`.
#[cfg(kani)]
#[macro_export]
macro_rules! vpost {
    ($name:literal, $cond:expr $(,)?) => {
        kani::assert($cond, $name)
    };
}
#[cfg(not(kani))]
#[macro_export]
macro_rules! vpost {
    ($name:literal, $cond:expr $(,)?) => {
        $crate::verif_nd::post_native($name, $cond)
    };
}

/// Reachability / vacuity guard: `vcover!("harness.case", cond)`.
#[cfg(kani)]
#[macro_export]
macro_rules! vcover {
    ($name:literal, $cond:expr $(,)?) => {
        kani::cover!($cond, $name)
    };
}
#[cfg(not(kani))]
#[macro_export]
macro_rules! vcover {
    ($name:literal, $cond:expr $(,)?) => {
        let _ = $cond;
    };
}
