"""Minimal Rust source scanner: locate items by (impl/mod header regex, fn name) with brace matching.

Used by the overlay (insert contract attributes above a fn, add-only) and by the Verus extractor
(pull the token-identical text of a function).  It is not a parser: it masks comments, string and
char literals and then matches braces, which is enough for the item-level anchors we need.
"""
import re


def mask(src: str) -> str:
    """Return src with comments / string / char literals replaced by spaces (same length, same newlines)."""
    out = list(src)
    i, n = 0, len(src)

    def blank(a, b):
        for k in range(a, b):
            if out[k] != "\n":
                out[k] = " "

    while i < n:
        c = src[i]
        if src.startswith("//", i):
            j = src.find("\n", i)
            j = n if j < 0 else j
            blank(i, j)
            i = j
        elif src.startswith("/*", i):
            depth, j = 1, i + 2
            while j < n and depth:
                if src.startswith("/*", j):
                    depth += 1
                    j += 2
                elif src.startswith("*/", j):
                    depth -= 1
                    j += 2
                else:
                    j += 1
            blank(i, j)
            i = j
        elif c == '"' or (c == "r" and re.match(r'r#*"', src[i:])) or (c == "b" and re.match(r'b(r#*)?"', src[i:])):
            m = re.match(r'(b?r(#*)")', src[i:])
            if m:  # raw string
                hashes = m.group(2)
                end = src.find('"' + hashes, i + len(m.group(1)))
                j = n if end < 0 else end + 1 + len(hashes)
            else:
                j = i + (2 if c == "b" else 1)
                while j < n and src[j] != '"':
                    j += 2 if src[j] == "\\" else 1
                j += 1
            blank(i + 1, j - 1)
            i = j
        elif c == "'":
            m = re.match(r"'(\\.[^']*|[^\\'])'", src[i:])
            if m:
                blank(i + 1, i + len(m.group(0)) - 1)
                i += len(m.group(0))
            else:
                i += 1  # lifetime
        else:
            i += 1
    return "".join(out)


def match_brace(masked: str, open_idx: int) -> int:
    """Index of the '}' matching the '{' at open_idx."""
    assert masked[open_idx] == "{"
    depth = 0
    for k in range(open_idx, len(masked)):
        ch = masked[k]
        if ch == "{":
            depth += 1
        elif ch == "}":
            depth -= 1
            if depth == 0:
                return k
    raise ValueError("unbalanced braces")


class AnchorError(Exception):
    pass


FN_RE = r"^[ \t]*(?:pub(?:\([a-z:]+\))?[ \t]+)?(?:const[ \t]+)?(?:unsafe[ \t]+)?fn[ \t]+%s\b"


def find_block(src: str, masked: str, header_re: str, within=(0, None)):
    """Return (header_line_start, open_brace_idx, close_brace_idx) of the unique item whose header matches."""
    lo, hi = within
    hi = len(src) if hi is None else hi
    hits = [m for m in re.finditer(header_re, masked[lo:hi], flags=re.M)]
    if len(hits) != 1:
        raise AnchorError(f"header /{header_re}/ matched {len(hits)} times")
    start = lo + hits[0].start()
    ob = masked.find("{", lo + hits[0].end() - 1)
    if masked[lo + hits[0].end() - 1] != "{":
        ob = masked.find("{", lo + hits[0].start())
    cb = match_brace(masked, ob)
    return start, ob, cb


def find_fn(src: str, fn_name: str, impl_re: str | None = None):
    """Locate a fn item.  Returns dict(sig_start, body_open, body_close, line_start).

    sig_start = index of the first character of the line that holds the `fn` keyword.
    """
    masked = mask(src)
    lo, hi = 0, len(src)
    if impl_re:
        for part in impl_re.split(" >> "):
            _, ob, cb = find_block(src, masked, part, (lo, hi))
            lo, hi = ob + 1, cb
    hits = [m for m in re.finditer(FN_RE % re.escape(fn_name), masked[lo:hi], flags=re.M)]
    # keep only hits at the nesting depth of the container (depth 0 relative to lo)
    keep = []
    for m in hits:
        pos = lo + m.start()
        depth = masked[lo:pos].count("{") - masked[lo:pos].count("}")
        if depth == 0:
            keep.append(m)
    if len(keep) != 1:
        raise AnchorError(f"fn {fn_name} in /{impl_re}/ matched {len(keep)} times")
    sig_start = lo + keep[0].start()
    ob = masked.find("{", sig_start)
    semi = masked.find(";", sig_start)
    if ob < 0 or (0 <= semi < ob):
        raise AnchorError(f"fn {fn_name}: no body")
    cb = match_brace(masked, ob)
    return dict(sig_start=sig_start, body_open=ob, body_close=cb)
