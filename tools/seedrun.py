#!/usr/bin/env python3
"""Run a property's check against a seeded change, on a scratch copy of /repo with the patch applied
(equivalent to `git -C /repo apply` + check + `git checkout`, without touching /repo).
usage: seedrun.py <seed-id> [tier] [extra bin/check args...]   -> seeded/<id>/result-<tier>.json"""
import json, os, shutil, subprocess, sys, time
VERIF = os.path.dirname(os.path.dirname(os.path.abspath(__file__)))
seed = sys.argv[1]
tier = sys.argv[2] if len(sys.argv) > 2 else "quick"
extra = sys.argv[3:]
prop = os.environ.get("SEED_PROP", seed.split("-")[0])
d = f"/var/tmp/seedrun-{seed}-{prop}"
shutil.rmtree(d, ignore_errors=True)
os.makedirs(d)
subprocess.run(["rsync", "-a", "--exclude", "/target", "--exclude", ".git", "/repo/", d + "/repo/"], check=True)
subprocess.run(["git", "apply", "--unsafe-paths", "--directory", d + "/repo", os.path.join(VERIF, "seeded", seed, "patch.diff")], check=True, cwd="/")
env = dict(os.environ, VERIF_REPO=d + "/repo", VERIF_EVIDENCE_DIR=d + "/evidence", VERIF_REPLAY_DIR=d + "/replay",
           VERIF_WORK_TAG="-" + seed)
t0 = time.time()
p = subprocess.run([os.path.join(VERIF, "bin/check"), prop, "--tier", tier] + extra, env=env, capture_output=True, text=True, cwd=VERIF)
out = p.stdout + p.stderr
res = dict(seed=seed, property=prop, tier=tier, exit=p.returncode, wall_s=round(time.time() - t0, 1),
           violation_lines=[l for l in out.splitlines() if l.startswith("VIOLATION")],
           failed_obligations=[l.strip() for l in out.splitlines() if "failed obligation" in l],
           undecided=[l[:300] for l in out.splitlines() if l.startswith("UNDECIDED")][:6],
           caught=(p.returncode == 1), cmd=f"VERIF_REPO=<scratch copy of /repo + patch> ./bin/check {prop} --tier {tier} " + " ".join(extra))
json.dump(res, open(os.path.join(VERIF, "seeded", seed, f"result-{prop}-{tier}.json"), "w"), indent=1)
shutil.rmtree(d, ignore_errors=True)
print(seed, prop, tier, "exit", p.returncode, "CAUGHT" if res["caught"] else "missed", res["failed_obligations"][:2], flush=True)
