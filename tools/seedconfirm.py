#!/usr/bin/env python3
"""Confirm a seeded change independently: on a scratch copy of /repo (outside /repo and /verif)
  (a) with the patch the project compiles and the existing suite gives the baseline result,
  (b) the demonstration fails with the patch, (c) passes without it.
Writes seeded/<id>/confirm.json.   usage: seedconfirm.py <seed-id>... """
import json
import os
import re
import shutil
import subprocess
import sys

VERIF = os.path.dirname(os.path.dirname(os.path.abspath(__file__)))
SCR = "/var/tmp/seedconfirm"
TARGET = "/var/tmp/seedconfirm-target"


def demo_place(seed):
    pid = seed.split("-")[0]
    if pid in ("C19", "C20"):
        return "opening-hours-syntax/tests", ["-p", "opening-hours-syntax"]
    if pid == "C15":
        return "compact-calendar/tests", ["-p", "compact-calendar"]
    return "tests", ["-p", "opening-hours"]


def sh(cmd, cwd, timeout=3600):
    env = dict(os.environ, CARGO_TARGET_DIR=TARGET, CARGO_NET_OFFLINE="true")
    p = subprocess.run(cmd, cwd=cwd, env=env, capture_output=True, text=True, timeout=timeout)
    return p.returncode, p.stdout + p.stderr


def fresh(seed, patched):
    d = os.path.join(SCR, seed)
    shutil.rmtree(d, ignore_errors=True)
    os.makedirs(d)
    subprocess.run(["rsync", "-a", "--exclude", "/target", "--exclude", ".git", "/repo/", d + "/"], check=True)
    if patched:
        subprocess.run(["git", "apply", "--unsafe-paths", "--directory", d, os.path.join(VERIF, "seeded", seed, "patch.diff")],
                       check=True, cwd="/")
    # rsync keeps the mtimes of /repo: make cargo's mtime-based fingerprints see every copy as new
    subprocess.run("find . -name '*.rs' -not -path './target/*' -exec touch {} +", shell=True, cwd=d, check=True)
    return d


def suite(d):
    # the 256 generated fuzz-corpus tests (tests::_00.._ff) fail / hang on the pristine tree already: skip them
    rc1, out1 = sh(["cargo", "test", "--workspace", "--exclude", "fuzz", "--no-fail-fast", "--offline",
                    "--lib", "--bins", "--tests"], d)
    rc2, out2 = sh(["cargo", "test", "-p", "fuzz", "--no-fail-fast", "--offline", "--lib", "--", "no_fuzz"], d)
    out = out1 + out2
    passed = set(re.findall(r"^test (\S+) \.\.\. ok", out, flags=re.M))
    failed = set(re.findall(r"^test (\S+) \.\.\. FAILED", out, flags=re.M))
    nonfuzz_failed = sorted(f for f in failed if not re.match(r"tests::_[0-9a-f]{2}$", f))
    compiled = "error: could not compile" not in out
    return dict(compiled=compiled, n_passed=len([p for p in passed if not re.match(r"tests::_[0-9a-f]{2}$", p)]),
                nonfuzz_failed=nonfuzz_failed)


def demo(d, seed):
    place, pkg = demo_place(seed)
    os.makedirs(os.path.join(d, place), exist_ok=True)
    shutil.copy(os.path.join(VERIF, "seeded", seed, "demo.rs"), os.path.join(d, place, "verifdemo.rs"))
    rc, out = sh(["cargo", "test", "--offline"] + pkg + ["--test", "verifdemo"], d)
    return dict(rc=rc, passed="test result: ok" in out and rc == 0,
                tail=out[-600:])


def main():
    for seed in sys.argv[1:]:
        res = dict(seed=seed)
        d = fresh(seed, True)
        res["suite_with_patch"] = suite(d)
        res["demo_with_patch"] = demo(d, seed)
        d = fresh(seed, False)
        res["demo_without_patch"] = demo(d, seed)
        shutil.rmtree(d, ignore_errors=True)
        res["confirmed"] = bool(res["suite_with_patch"]["compiled"] and not res["suite_with_patch"]["nonfuzz_failed"]
                                and res["suite_with_patch"]["n_passed"] >= 113
                                and not res["demo_with_patch"]["passed"] and res["demo_without_patch"]["passed"])
        with open(os.path.join(VERIF, "seeded", seed, "confirm.json"), "w") as f:
            json.dump(res, f, indent=1)
        print(seed, "confirmed" if res["confirmed"] else "NOT CONFIRMED", res["suite_with_patch"]["n_passed"],
              res["suite_with_patch"]["nonfuzz_failed"][:3], flush=True)
    shutil.rmtree(SCR, ignore_errors=True)


if __name__ == "__main__":
    main()
