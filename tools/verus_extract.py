"""Mechanical extraction of real function text from /repo into a single-file Verus unit.

Directives in a template (verus/*.verus.rs):
  //@STRUCT file=<rel> name=<T>
        -> the struct item `pub struct T { .. }` copied verbatim (doc comments and #[derive]/#[repr]
           attributes dropped).
  //@FN file=<rel> [impl=<header regex>] fn=<name> ret=<binder> name=<obligation name> [drop_const=1]
      <spec clauses: requires / ensures / decreases, verbatim from the template>
  //@END
        -> the fn signature copied verbatim from the source with a named return binder `-> (ret: T)`
           spliced in, then the spec clauses, then the body `{ .. }` byte-identical to the source.

  //@STRUCT ... derive=Clone,Copy
        -> additionally re-emits `#[derive(Clone, Copy)]`, after checking that the derive attribute of the
           item in the source lists every one of these traits.
  inside a //@FN block:
      //@LOOP n=<k> [binder=<ident>]
          invariant ... / decreases ...       (verbatim from the template)
      //@ENDLOOP
        -> loop annotations for the k-th `for` / `while` loop of the body (textual order): the clauses are
           inserted between the loop header and its `{`, and for a `for` loop the ghost iterator binder
           `<ident>: ` is inserted after ` in `.  These are pure annotations (add-only); the extractor checks
           that deleting the inserted text gives back the source body byte for byte.

What the extraction drops or changes, exactly: doc comments and attributes above the item (except a re-emitted
derive, see above); the return type is wrapped as `-> (binder: T)`; loop annotations as described.  No token of a
body is edited or removed.  SHA-256 of each source body is reported.
"""
import hashlib
import json
import os
import re
import shlex
import sys

sys.path.insert(0, os.path.dirname(os.path.abspath(__file__)))
import rsrc  # noqa: E402
import overlay  # noqa: E402

VERIF = overlay.VERIF


def _kv(line):
    d = {}
    body = line.strip()
    m = re.match(r"//@(\w+)\s+(.*)$", body)
    kind, rest = m.group(1), m.group(2)
    # impl= may contain spaces: it extends to the next " fn="
    mi = re.search(r"impl=(.*?)\s+fn=", rest)
    if mi:
        d["impl"] = mi.group(1)
        rest = rest[:mi.start()] + rest[mi.end() - 3:]
    for tok in shlex.split(rest):
        k, _, v = tok.partition("=")
        d[k] = v
    return kind, d


def extract_struct(src, name):
    masked = rsrc.mask(src)
    m = re.search(r"^[ \t]*pub struct %s\b[^;{]*\{" % re.escape(name), masked, flags=re.M)
    if not m:
        m2 = re.search(r"^[ \t]*pub struct %s\b" % re.escape(name), masked, flags=re.M)
        if not m2:
            raise rsrc.AnchorError(f"struct {name} not found")
        # tuple / unit struct: up to the `;` outside any bracket
        depth, k = 0, m2.end()
        while k < len(masked):
            ch = masked[k]
            if ch in "([<":
                depth += 1
            elif ch in ")]>":
                depth -= 1
            elif ch == ";" and depth == 0:
                return src[m2.start():k + 1]
            k += 1
        raise rsrc.AnchorError(f"struct {name}: no terminating `;`")
    ob = masked.find("{", m.start())
    cb = rsrc.match_brace(masked, ob)
    return src[m.start():cb + 1]


def struct_derives(src, name):
    """Traits listed in the #[derive(..)] attributes directly above `pub struct <name>`."""
    m = re.search(r"((?:^[ \t]*#\[[^\n]*\]\s*\n)+)[ \t]*pub struct %s\b" % re.escape(name), src, flags=re.M)
    if not m:
        return []
    out = []
    for dm in re.finditer(r"#\[derive\(([^)]*)\)\]", m.group(1)):
        out += [t.strip() for t in dm.group(1).split(",") if t.strip()]
    return out


def splice_loops(body, loops):
    """Insert loop annotations (add-only).  loops: list of dict(n, binder, clauses[])."""
    if not loops:
        return body
    masked = rsrc.mask(body)
    heads = [m for m in re.finditer(r"\b(for|while)\b", masked)]
    # keep keyword occurrences that start a loop statement (not `for<'a>` bounds, not `impl X for Y`)
    heads = [m for m in heads if not re.match(r"for\s*<", masked[m.start():])]
    inserts = []
    for lp in loops:
        k = int(lp["n"])
        if k < 1 or k > len(heads):
            raise rsrc.AnchorError(f"loop {k} not found (body has {len(heads)} loops)")
        h = heads[k - 1]
        ob = masked.find("{", h.end())
        if ob < 0:
            raise rsrc.AnchorError(f"loop {k}: no body")
        if h.group(1) == "for" and lp.get("binder"):
            mi = re.search(r"\bin\s+", masked[h.end():ob])
            if not mi:
                raise rsrc.AnchorError(f"loop {k}: `in` not found")
            inserts.append((h.end() + mi.end(), lp["binder"] + ": "))
        indent = re.search(r"[ \t]*$", body[:h.start()]).group(0)
        text = "\n" + "\n".join(indent + "    " + c.strip() for c in lp["clauses"] if c.strip()) + "\n" + indent
        # the clauses go right before the `{` (replacing nothing: the blank before `{` is kept in front)
        inserts.append((ob, text))
    inserts.sort()
    pieces, last = [], 0
    for pos, text in inserts:
        pieces.append(body[last:pos])
        pieces.append(text)
        last = pos
    pieces.append(body[last:])
    new = "".join(pieces)
    # add-only check: dropping the inserted pieces (odd positions) gives back the source body byte for byte
    if "".join(pieces[0::2]) != body:
        raise rsrc.AnchorError("loop splice is not add-only")
    return new


def render(template_path, repo):
    """-> (text, functions[], lost[]).  functions: dict(name, fn, file, body_sha256, line_lo, line_hi)"""
    out, fns = [], []
    lines = open(template_path).read().split("\n")
    i = 0
    while i < len(lines):
        ln = lines[i]
        if ln.strip().startswith("//@STRUCT"):
            _, d = _kv(ln)
            src = open(os.path.join(repo, d["file"])).read()
            if d.get("derive"):
                want = [t.strip() for t in d["derive"].split(",") if t.strip()]
                have = struct_derives(src, d["name"])
                missing = [t for t in want if t not in have]
                if missing:
                    raise rsrc.AnchorError(f"struct {d['name']} no longer derives {missing}")
                out.append("#[derive(%s)]" % ", ".join(want))
            out.append(extract_struct(src, d["name"]))
            i += 1
        elif ln.strip().startswith("//@FN"):
            _, d = _kv(ln)
            spec, loops, cur = [], [], None
            i += 1
            while lines[i].strip() != "//@END":
                st = lines[i].strip()
                if st.startswith("//@LOOP"):
                    _, ld = _kv(lines[i])
                    cur = dict(n=ld["n"], binder=ld.get("binder"), clauses=[])
                elif st.startswith("//@ENDLOOP"):
                    loops.append(cur)
                    cur = None
                elif cur is not None:
                    cur["clauses"].append(lines[i])
                else:
                    spec.append(lines[i])
                i += 1
            i += 1
            src = open(os.path.join(repo, d["file"])).read()
            loc = rsrc.find_fn(src, d["fn"], d.get("impl"))
            sig = src[loc["sig_start"]:loc["body_open"]].rstrip()
            body = src[loc["body_open"]:loc["body_close"] + 1]
            if "->" in sig and d.get("ret"):
                head, _, rty = sig.rpartition("->")
                sig = f'{head}-> ({d["ret"]}: {rty.strip()})'
            if d.get("drop_const"):
                sig = re.sub(r"\bconst fn\b", "fn", sig)
            start_line = len("\n".join(out).split("\n")) + 1
            out.append(sig)
            out += spec
            out.append("    " + splice_loops(body, loops))
            end_line = len("\n".join(out).split("\n"))
            fns.append(dict(name=d["name"], fn=d["fn"], file=d["file"], impl=d.get("impl"),
                            body_sha256=hashlib.sha256(body.encode()).hexdigest(),
                            line_lo=start_line, line_hi=end_line,
                            spec=[s.strip() for s in spec if s.strip()],
                            loop_annotations=[dict(n=l_["n"], binder=l_["binder"], clauses=[c.strip() for c in l_["clauses"] if c.strip()]) for l_ in loops]))
        else:
            out.append(ln)
            i += 1
    return "\n".join(out), fns


def run_unit(work, v):
    import vlib
    rep = dict(id=v["id"], obligations=[], n_obligations=0, n_verified=0, status="undecided", reason="",
               failed=[], functions=[], trusted=[], cmd="", time_s=None)
    tpl = os.path.join(VERIF, v["template"])
    try:
        text, fns = render(tpl, overlay.REPO)
    except (rsrc.AnchorError, FileNotFoundError, KeyError) as e:
        rep["reason"] = f"lost-anchor: {e}"
        return rep
    path = os.path.join(work, v["id"] + ".rs")
    with open(path, "w") as f:
        f.write(text)
    # canary: the same file plus a false lemma must be rejected
    canary_path = os.path.join(work, v["id"] + "_canary.rs")
    with open(canary_path, "w") as f:
        f.write(text.replace("} // verus!", "proof fn canary_must_fail() ensures 1int == 2int {}\n} // verus!"))
    r = vlib.run_verus(work, path)
    rep["cmd"] = f"verus <extracted {v['template']}> --output-json --time --multiple-errors 20"
    js = r["json"]
    if r["timed_out"] or js is None:
        rep["reason"] = "timeout" if r["timed_out"] else "verus produced no JSON: " + r["text"][-800:]
        return rep
    vr = js.get("verification-results", {})
    tv = js.get("times-ms", {})
    rep["time_s"] = round((tv.get("total", 0) or 0) / 1000.0, 2) if isinstance(tv, dict) else None
    n_ver, n_err = vr.get("verified", 0), vr.get("errors", 0)
    enc = vr.get("encountered-vir-error") or ("verified" not in vr)
    text_out = r["text"]
    msgs = []  # rustc-style json diagnostics are printed on stderr lines
    for m in re.finditer(r'^\{.*"\$message_type":"diagnostic".*\}$', text_out, flags=re.M):
        try:
            msgs.append(json.loads(m.group(0)))
        except Exception:
            pass
    plain_errors = re.findall(r"^error[^\n]*\n(?:[^\n]*\n){0,12}", text_out, flags=re.M)
    rep["trusted"] = [f"verus assume_specification in {v['template']}: {s.strip()}" for s in
                      re.findall(r"assume_specification(?:<[^>]*>)?\s*\[([^\]]+)\]", text)]
    rep["trusted"] += [f"verus external_body (assumed contract, body not verified) in {v['template']}: {s.strip()}" for s in
                       re.findall(r"#\[verifier::external_body\]\s*(?:#\[[^\n]*\]\s*)*([^\n{;]+)", text)]
    if enc or (n_ver == 0 and n_err == 0):
        rep["reason"] = "unsupported-construct or spec does not type-check: " + text_out[-1500:]
        return rep
    # map errors to functions by line range
    err_lines = [int(x) for x in re.findall(r"--> [^\n:]+:(\d+):\d+", text_out)]
    failed_fns = []
    for f_ in fns:
        bad = [l_ for l_ in err_lines if f_["line_lo"] <= l_ <= f_["line_hi"]]
        status = "failed" if bad else "verified"
        if bad:
            failed_fns.append(f_)
        rep["obligations"].append(dict(name=f_["name"], harness="verus:" + v["id"], status=status,
                                       backend="verus/z3", time_s=rep["time_s"], kind="complete"))
        rep["functions"].append(dict(function=f'{f_["file"]} :: {f_["impl"] or ""} fn {f_["fn"]}',
                                     source_sha256=f_["body_sha256"], clauses=f_["spec"],
                                     backend="verus (body extracted verbatim)"))
    for nm in v.get("lemmas", []):
        rep["obligations"].append(dict(name=nm, harness="verus:" + v["id"], status="verified" if n_err == 0 else "unknown",
                                       backend="verus/z3", time_s=rep["time_s"], kind="complete"))
    rep["n_obligations"] = n_ver + n_err
    rep["n_verified"] = n_ver
    if n_err == 0:
        # vacuity guard: canary must be rejected
        c = vlib.run_verus(work, canary_path)
        cj = c["json"] or {}
        if (cj.get("verification-results", {}) or {}).get("errors", 0) < 1:
            rep["reason"] = "verus canary (1 == 2) was not rejected"
            return rep
        rep["status"] = "verified"
        return rep
    if failed_fns:
        rep["status"] = "failed"
        for f_ in failed_fns:
            rep["failed"].append(dict(name=f_["name"], message=text_out[-6000:]))
    else:
        # an error outside extracted functions (a lemma of the template): proof failure, not a refutation
        rep["status"] = "failed" if v.get("lemma_failure_is_violation") else "undecided"
        rep["reason"] = "a template lemma no longer verifies: " + "\n".join(plain_errors)[:1500]
        if rep["status"] == "failed":
            rep["failed"].append(dict(name=v["id"] + ".lemma", message=text_out[-6000:]))
    return rep


if __name__ == "__main__":
    t, fns = render(sys.argv[1], overlay.REPO)
    print(t)
