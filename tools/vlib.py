"""Driver library: harness selection, Kani/Verus runs in their own process groups, result parsing,
counterexample extraction, native replay on the real code, evidence files."""
import glob
import json
import os
import re
import resource
import shlex
import shutil
import signal
import subprocess
import sys
import time

sys.path.insert(0, os.path.dirname(os.path.abspath(__file__)))
import ledger  # noqa: E402
import overlay  # noqa: E402

VERIF = overlay.VERIF
REPO = overlay.REPO
WORK_ROOT = os.environ.get("VERIF_WORK", "/var/tmp/verif-work")
KANI_FLAGS = ["-Z", "function-contracts", "-Z", "stubbing", "-Z", "unstable-options"]
GB = 1 << 30


# ------------------------------------------------------------------------------------------------
# harness metadata
# ------------------------------------------------------------------------------------------------

_FN_CACHE = {}


def _fn_bodies(path):
    """top-level fn name -> body text of a harness file (brace matched on masked source)"""
    if path in _FN_CACHE:
        return _FN_CACHE[path]
    import rsrc
    src = open(path).read()
    masked = rsrc.mask(src)
    out = {}
    for m in re.finditer(r"^(?:pub(?:\(crate\))?\s+)?fn\s+(\w+)", masked, flags=re.M):
        ob = masked.find("{", m.end())
        try:
            cb = rsrc.match_brace(masked, ob)
        except ValueError:
            continue
        out[m.group(1)] = src[ob:cb + 1]
    _FN_CACHE[path] = out
    return out


def harness_text(path, name, depth=3):
    fns = _fn_bodies(path)
    seen, todo, text = set(), [(name, 0)], []
    while todo:
        n, d = todo.pop()
        if n in seen or n not in fns:
            continue
        seen.add(n)
        text.append(fns[n])
        if d < depth:
            for callee in set(re.findall(r"\b(\w+)\s*(?:::<[^>]*>)?\s*\(", fns[n])):
                if callee in fns and callee not in seen:
                    todo.append((callee, d + 1))
    return "\n".join(text)


def scan_harnesses():
    """Parse `//@H key=val ...` lines in every harness file of the ledger."""
    out = []
    for u in ledger.UNITS:
        path = os.path.join(VERIF, u["harness"])
        lines = open(path).read().splitlines()
        for i, ln in enumerate(lines):
            if not ln.strip().startswith("//@H"):
                continue
            meta = dict(tier="quick", kind="complete", cap="300", expect="pass", mem="light")
            for tok in shlex.split(ln.strip()[4:]):
                k, _, v = tok.partition("=")
                meta[k] = v
            name = None
            for j in range(i + 1, min(i + 30, len(lines))):
                m = re.match(r"\s*(?:pub(?:\(crate\))?\s+)?fn\s+(\w+)\s*\(", lines[j])
                if m:
                    name = m.group(1)
                    break
            if not name:
                raise RuntimeError(f"{path}:{i + 1}: //@H without fn")
            # named obligations / covers declared in the harness body and in the helper fns it calls
            body = harness_text(path, name)
            meta.update(
                name=name,
                unit=u["id"],
                package=u["package"],
                full=f'{u["modpath"]}::{name}',
                props=[p for p in meta.get("props", "").split(",") if p],
                cap=int(meta["cap"]),
                named=re.findall(r'vpost!\(\s*"([^"]+)"', body),
                covers=re.findall(r'vcover!\(\s*"([^"]+)"', body),
                stubs=re.findall(r"kani::(stub(?:_verified)?\([^\n]*?\))\)\]", "\n".join(lines[i:j + 1])),
                file=u["harness"],
                line=i + 1,
            )
            out.append(meta)
    names = [h["full"] for h in out]
    assert len(names) == len(set(names)), "duplicate harness names"
    return out


def select(harnesses, prop, tier, only=None):
    sel = []
    for h in harnesses:
        if only and not any(o in h["full"] for o in only):
            continue
        # `tier_<prop>=...` overrides the harness tier for one property (e.g. tier_C04=thorough keeps an expensive
        # harness out of C04's quick command while it stays in the quick command of the property it decides)
        ht = h.get("tier_" + prop, h["tier"]) if prop != "all" else h["tier"]
        if tier == "quick" and ht != "quick":
            continue
        if tier == "thorough" and ht not in ("quick", "thorough"):
            continue
        if ht == "off" or h["tier"] == "off":
            continue
        if prop == "all" or prop in h["props"]:
            sel.append(h)
    # one canary per package involved
    pkgs = {h["package"] for h in sel}
    for h in harnesses:
        if h["kind"] == "canary" and h["package"] in pkgs and h not in sel and not only:
            sel.append(h)
    return sel


# ------------------------------------------------------------------------------------------------
# process running
# ------------------------------------------------------------------------------------------------

def _poll_rss(stop, marker, peaks):
    """Record the peak resident size (GB) of every cbmc process whose command line mentions `marker`,
    keyed by the goto-binary file name (which carries the mangled harness name)."""
    while not stop.is_set():
        try:
            for pid in os.listdir("/proc"):
                if not pid.isdigit():
                    continue
                try:
                    cl = open(f"/proc/{pid}/cmdline", "rb").read().decode(errors="replace")
                    if "cbmc" not in cl[:200] or marker not in cl:
                        continue
                    m = re.search(r"([A-Za-z0-9_]+)\.out", cl)
                    rss = 0
                    for ln in open(f"/proc/{pid}/status"):
                        if ln.startswith("VmRSS:"):
                            rss = int(ln.split()[1]) / (1 << 20)
                    key = m.group(1) if m else pid
                    if rss > peaks.get(key, 0):
                        peaks[key] = rss
                except (OSError, ValueError):
                    continue
        except OSError:
            pass
        stop.wait(2.0)


def run_group(cmd, cwd, env, timeout, mem_gb, log_path, rss_marker=None, peaks=None):
    """Run cmd in its own session; kill the whole process group on timeout.  Returns (rc, timed_out, wall)."""
    import threading
    stop = threading.Event()
    if rss_marker and peaks is not None:
        threading.Thread(target=_poll_rss, args=(stop, rss_marker, peaks), daemon=True).start()
    try:
        return _run_group(cmd, cwd, env, timeout, mem_gb, log_path)
    finally:
        stop.set()


def _run_group(cmd, cwd, env, timeout, mem_gb, log_path):
    def pre():
        os.setsid()
        lim = int(mem_gb * GB)
        resource.setrlimit(resource.RLIMIT_AS, (lim, lim))
    t0 = time.time()
    with open(log_path, "w") as log:
        p = subprocess.Popen(cmd, cwd=cwd, env=env, stdout=log, stderr=subprocess.STDOUT, preexec_fn=pre)
        timed_out = False
        try:
            rc = p.wait(timeout=timeout)
        except subprocess.TimeoutExpired:
            timed_out = True
            rc = -9
        finally:
            try:
                os.killpg(p.pid, signal.SIGKILL)
            except ProcessLookupError:
                pass
            try:
                p.wait(timeout=10)
            except Exception:
                pass
    return rc, timed_out, time.time() - t0


def base_env(work):
    env = dict(os.environ)
    env["CARGO_NET_OFFLINE"] = "true"
    tmp = os.path.join(work, "tmp")
    os.makedirs(tmp, exist_ok=True)
    env["TMPDIR"] = tmp
    env.pop("RUSTFLAGS", None)
    return env


# ------------------------------------------------------------------------------------------------
# Kani
# ------------------------------------------------------------------------------------------------

CHECK_RE = re.compile(
    r"Check (\d+): ([^\n]+)\n\s*- Status: (\w+)\n\s*- Description: \"(.*?)\"\n\s*- Location: ([^\n]*)", re.S)


def parse_harness_output(text):
    checks = []
    for m in CHECK_RE.finditer(text):
        checks.append(dict(n=int(m.group(1)), id=m.group(2), status=m.group(3), desc=m.group(4), loc=m.group(5)))
    verdict = None
    m = re.search(r"VERIFICATION:- (\w+)", text)
    if m:
        verdict = m.group(1)
    vt = re.search(r"Verification Time: ([0-9.]+)s", text)
    oom = "out of memory" in text or "std::bad_alloc" in text or "memory exhausted" in text.lower()
    return dict(
        checks=checks,
        verdict=verdict,
        time_s=float(vt.group(1)) if vt else None,
        oom=oom,
        timeout=bool(re.search(r"timed out|TIMEOUT", text)),
        stubs=re.findall(r"- Stub: ([^\n]+)", text),
    )



def resolve_unwindset(work, ws, package, h, tdir, log_prefix):
    """`unwindset="<regex on the pretty function name>=<n>;..."` of a harness -> CBMC loop labels.
    The labels are mangled symbol names, so they are looked up on every run: the harness is compiled (`--only-codegen`),
    `cbmc --show-loops` lists every loop of its goto binary with the pretty name of its function, and each regex must
    match at least one loop (else the run is undecided: a renamed function must not silently lose its bound)."""
    spec = []
    for item in h["unwindset"].split(";"):
        item = item.strip()
        if item:
            rx, _, n = item.rpartition("=")
            spec.append((re.compile(rx), int(n)))
    cmd = ["cargo", "kani"]
    if package:
        cmd += ["-p", package]
    cmd += KANI_FLAGS + ["--target-dir", tdir, "--exact", "--harness", h["full"], "--only-codegen"]
    log = os.path.join(work, log_prefix + "-codegen.log")
    run_group(cmd, ws, base_env(work), timeout=1800, mem_gb=16, log_path=log)
    suffix = str(len(h["name"])) + h["name"] + ".out"
    outs = [f for f in glob.glob(os.path.join(tdir, "**", "*" + suffix), recursive=True) if not f.endswith(".symtab.out")]
    if not outs:
        return None, "no goto binary after --only-codegen: " + open(log, errors="replace").read()[-800:]
    outs.sort(key=os.path.getmtime)
    p = subprocess.run(["cbmc", "--show-loops", outs[-1]], capture_output=True, text=True, timeout=600)
    loops = re.findall(r"^Loop (\S+):\n\s+file .*? function (.*)$", p.stdout, flags=re.M)
    labels, missing = [], []
    for rx, n in spec:
        hit = [lab for lab, fn in loops if rx.search(fn)]
        if not hit:
            missing.append(rx.pattern)
        labels += [f"{lab}:{n}" for lab in hit]
    if missing:
        return None, "unwindset pattern(s) match no loop: " + ", ".join(missing)
    return labels, None

def run_kani(work, ws, package, hs, jobs, mem_gb, extra=None, tag="k"):
    """One cargo-kani invocation for `hs` (all of one package).  Returns {full_name: parsed}."""
    tdir = os.path.join(work, "target-" + (package or "root") + "-" + tag)
    rdir = os.path.join(tdir, "result_output_dir")
    if os.path.isdir(rdir):
        shutil.rmtree(rdir)
    cap = max(h["cap"] for h in hs)
    cmd = ["cargo", "kani"]
    if package:
        cmd += ["-p", package]
    cmd += KANI_FLAGS + ["--target-dir", tdir, "--exact", "-j", str(jobs), "--output-format", "terse",
                         "--output-into-files", "--harness-timeout", f"{cap}s"]
    for h in hs:
        cmd += ["--harness", h["full"]]
    if extra:
        cmd += extra
    if len(hs) == 1 and hs[0].get("unwindset"):
        labels, err = resolve_unwindset(work, ws, package, hs[0], tdir, f"kani-{tag}-{package or 'root'}")
        if labels is None:
            r = dict(checks=[], verdict=None, time_s=None, oom=False, timeout=False, stubs=[], raw_tail=err, driver_rc=None,
                     cmd=" ".join(cmd), peak_rss_gb=None, unwindset_error=err)
            hs[0]["_tag"] = tag
            return {hs[0]["full"]: r}, dict(rc=None, timed_out=False, wall=0.0, log=None, compile_error=False, unsupported=[],
                                            log_tail=err)
        cmd += ["--cbmc-args", "--unwindset", ",".join(labels)]
        hs[0]["_unwindset_labels"] = labels
    log = os.path.join(work, f"kani-{tag}-{package or 'root'}.log")
    waves = (len(hs) + jobs - 1) // jobs
    peaks = {}
    rc, to, wall = run_group(cmd, ws, base_env(work), timeout=cap * waves + 900, mem_gb=mem_gb, log_path=log,
                             rss_marker=tdir, peaks=peaks)
    logtxt = open(log, errors="replace").read()
    res = {}
    for h in hs:
        f = os.path.join(rdir, h["full"])
        if os.path.exists(f):
            txt = open(f, errors="replace").read()
            r = parse_harness_output(txt)
            r["raw_tail"] = txt[-3000:]
        else:
            r = dict(checks=[], verdict=None, time_s=None, oom=False, timeout=to, stubs=[], raw_tail="")
        # terse log carries timeouts / crashes per harness
        r["driver_rc"] = rc
        h["_tag"] = tag
        r["cmd"] = " ".join(shlex.quote(c) for c in cmd)
        # mangled names end with <len><fn name>
        pk = [v for k, v in peaks.items() if k.endswith(str(len(h["name"])) + h["name"])]
        r["peak_rss_gb"] = round(max(pk), 2) if pk else None
        res[h["full"]] = r
    compile_error = ("error: could not compile" in logtxt) or ("Failed to execute cargo" in logtxt)
    unsupported = re.findall(r"(?:unsupported|not currently supported)[^\n]*", logtxt)
    errs = re.findall(r"^error[^\n]*\n(?:[^\n]*\n){0,8}", logtxt, flags=re.M)
    return res, dict(rc=rc, timed_out=to, wall=wall, log=log, compile_error=compile_error,
                     unsupported=unsupported[:5], log_tail=("".join(errs)[:3000] or logtxt[-3000:]))


def kani_trace_values(work, ws, package, h, mem_gb=24):
    """Re-run one failing harness with a CBMC trace; return ({check_id: [values]}, raw excerpt)."""
    tdir = os.path.join(work, "target-" + (package or "root") + "-" + h.get("_tag", "n"))
    cmd = ["cargo", "kani"]
    if package:
        cmd += ["-p", package]
    cmd += KANI_FLAGS + ["--target-dir", tdir, "--exact", "--harness", h["full"], "--output-format", "old",
                         "--no-slice-formula", "--cbmc-args", "--trace"]
    if h.get("_unwindset_labels"):
        cmd += ["--unwindset", ",".join(h["_unwindset_labels"])]
    log = os.path.join(work, f"trace-{h['name']}.log")
    run_group(cmd, ws, base_env(work), timeout=h["cap"] * 3 + 600, mem_gb=mem_gb, log_path=log)
    txt = open(log, errors="replace").read()
    traces = {}
    parts = re.split(r"\nTrace for ([^\n]+):\n", txt)
    # parts = [pre, id1, body1, id2, body2, ...]
    for k in range(1, len(parts) - 1, 2):
        cid, body = parts[k], parts[k + 1]
        vals = []
        # one `return_value` assignment per call of verif_nd::imp::<ty> (mangled: ..8verif_nd3imp<len><ty>)
        for m in re.finditer(r"return_value\$\$\w*8verif_nd(?:3imp)?\d(u8|u16|u32|u64|i8|i16|i32|i64|bool)=(-?\d+|TRUE|FALSE)", body):
            v = m.group(2)
            vals.append(f"{m.group(1)}:{1 if v == 'TRUE' else 0 if v == 'FALSE' else int(v)}")
        traces[cid] = vals
    return traces, txt[-6000:]


# ------------------------------------------------------------------------------------------------
# native replay on the real code
# ------------------------------------------------------------------------------------------------

def native_replay(work, ws, package, full, values, timeout=1500):
    """Compile the overlay copy natively with --cfg verif_replay and run the same harness fn as a test."""
    env = base_env(work)
    env["RUSTFLAGS"] = "--cfg verif_replay -A unexpected_cfgs -A warnings"
    env["VERIF_REPLAY_VALUES"] = ",".join(str(v) for v in values)
    env["RUST_BACKTRACE"] = "0"
    tdir = os.path.join(work, "target-native")
    cmd = ["cargo", "test", "--offline", "--lib", "--target-dir", tdir]
    if package:
        cmd += ["-p", package]
    cmd += [full, "--", "--exact", "--nocapture", "--test-threads", "1"]
    log = os.path.join(work, "native-replay.log")
    rc, to, wall = run_group(cmd, ws, env, timeout=timeout, mem_gb=32, log_path=log)
    txt = open(log, errors="replace").read()
    ran = re.search(r"running 1 test", txt) is not None
    failed_obl = re.findall(r"VERIF_REPLAY: obligation failed: ([^\n]+)", txt)
    panicked = re.search(r"panicked at ([^\n]*)\n?([^\n]*)", txt)
    if not ran:
        status = "replay-build-failed"
    elif "VERIF_REPLAY: value vector exhausted" in txt:
        status = "values-exhausted"
    elif "VERIF_REPLAY: assumption not satisfied" in txt:
        status = "assumption-not-satisfied"
    elif failed_obl:
        status = "reproduced-obligation"
    elif panicked:
        status = "reproduced-panic"
    elif "test result: ok" in txt:
        status = "not-reproduced"
    else:
        status = "unknown"
    return dict(status=status, failed=failed_obl, panic=(panicked.group(0)[:400] if panicked else None),
                cmd="VERIF_REPLAY_VALUES=" + env["VERIF_REPLAY_VALUES"] + " RUSTFLAGS='--cfg verif_replay' "
                + " ".join(shlex.quote(c) for c in cmd), tail=txt[-1500:], wall=wall)


# ------------------------------------------------------------------------------------------------
# Verus
# ------------------------------------------------------------------------------------------------

def run_verus(work, path, timeout=600):
    log = os.path.join(work, os.path.basename(path) + ".verus.json")
    cmd = ["verus", path, "--output-json", "--time", "--multiple-errors", "20"]
    rc, to, wall = run_group(cmd, work, base_env(work), timeout=timeout, mem_gb=24, log_path=log)
    txt = open(log, errors="replace").read()
    js = None
    k = txt.find("{")
    while k >= 0 and js is None:
        try:
            js = json.loads(txt[k:txt.rfind("}") + 1])
        except Exception:
            k = txt.find("\n{", k + 1)
            k = k + 1 if k >= 0 else -1
    return dict(rc=rc, timed_out=to, wall=wall, json=js, text=txt)


# ------------------------------------------------------------------------------------------------
# misc
# ------------------------------------------------------------------------------------------------

COSTS_FILE = os.path.join(VERIF, "selftest", "costs.json")


def load_costs():
    """Measured verification time and peak memory per harness on the pinned tree (scheduling hints only)."""
    try:
        return json.load(open(COSTS_FILE))
    except (OSError, ValueError):
        return {}


def known_findings():
    p = os.path.join(VERIF, "KNOWN_FINDINGS.json")
    if not os.path.exists(p):
        return dict(findings=[], fixed=[])
    return json.load(open(p))


def repo_state():
    try:
        head = subprocess.run(["git", "-C", REPO, "rev-parse", "HEAD"], capture_output=True, text=True).stdout.strip()
        dirty = subprocess.run(["git", "-C", REPO, "status", "--porcelain", "--untracked-files=no"],
                               capture_output=True, text=True).stdout.strip()
        return dict(head=head, dirty=bool(dirty))
    except Exception:
        return dict(head=None, dirty=None)


def scan_assumptions(files):
    """Mechanical scan for assumption-like constructs in the harness / spec files used by a run."""
    pats = [r"kani::stub\(", r"stub_verified\(", r"assume_specification", r"external_body", r"\badmit\(",
            r"#\[verifier::external", r"\bassume\("]
    found = []
    for f in files:
        try:
            lines = open(os.path.join(VERIF, f)).read().splitlines()
        except FileNotFoundError:
            continue
        for i, ln in enumerate(lines):
            if ln.strip().startswith("//"):
                continue
            for p in pats:
                if re.search(p, ln):
                    found.append(f"{f}:{i + 1}: {ln.strip()[:160]}")
                    break
    return found
