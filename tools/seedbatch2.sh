#!/bin/bash
# run a plan of seeded changes: each line of the plan file is `<seed-id> <tier> [--only <harness substring>]...`
# (the registered command of the seed's property when no --only is given; with --only, the named harnesses of that tier)
cd "$(dirname "$0")/.."
while read -r seed tier rest; do
  [ -z "$seed" ] && continue
  case "$seed" in \#*) continue;; esac
  VERIF_JOBS=${VERIF_JOBS:-8} VERIF_WORK=/var/tmp/verif-work-seeds python3 tools/seedrun.py $seed $tier $rest
done < "${1:-tools/seedplan.txt}"
echo BATCH-DONE
