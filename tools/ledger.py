"""Ledger of verification units: which harness module is overlaid onto which source file of /repo.

package  : cargo package the harnesses are compiled in ('' = workspace root package `opening-hours`)
owner    : source file (relative to the repo root) that gets `mod <modname>;` appended (add-only)
harness  : harness file in /verif/kani, copied next to the owner as <modname>.rs
modpath  : Rust module path of the harness module inside the package (harness = modpath::fn)
contracts: optional file with contract attributes to insert above real fns (add-only)
"""

# crate roots that get the shared `verif_nd` module
ND_ROOTS = {
    "compact-calendar": "compact-calendar/src/lib.rs",
    "opening-hours-syntax": "opening-hours-syntax/src/lib.rs",
    "opening-hours": "opening-hours/src/lib.rs",
}

UNITS = [
    dict(
        id="calendar",
        package="compact-calendar",
        owner="compact-calendar/src/lib.rs",
        harness="kani/calendar/verif_calendar.rs",
        modname="verif_calendar",
        modpath="verif_calendar",
        contracts="contracts/compact_calendar.contracts",
    ),
    dict(
        id="syntax.sorted_vec",
        package="opening-hours-syntax",
        owner="opening-hours-syntax/src/sorted_vec.rs",
        harness="kani/syntax/verif_sorted_vec.rs",
        modname="verif_sorted_vec",
        modpath="sorted_vec::verif_sorted_vec",
    ),
    dict(
        id="syntax.extended_time",
        package="opening-hours-syntax",
        owner="opening-hours-syntax/src/extended_time.rs",
        harness="kani/syntax/verif_extended_time.rs",
        modname="verif_extended_time",
        modpath="extended_time::verif_extended_time",
        contracts="contracts/extended_time.contracts",
    ),
]

UNITS.append(dict(
    id="oh.schedule",
    package="",
    owner="opening-hours/src/schedule.rs",
    harness="kani/oh/verif_schedule.rs",
    modname="verif_schedule",
    modpath="schedule::verif_schedule",
    pub_mod=True,
    deps=["syntax.sorted_vec", "syntax.extended_time"],
))

UNITS.append(dict(
    id="oh.date_filter",
    package="",
    owner="opening-hours/src/filter/date_filter.rs",
    harness="kani/oh/verif_date_filter.rs",
    modname="verif_date_filter",
    modpath="filter::date_filter::verif_date_filter",
    pub_mod=True,
    deps=["syntax.extended_time"],
))

UNITS.append(dict(
    id="oh.time_filter",
    package="",
    owner="opening-hours/src/filter/time_filter.rs",
    harness="kani/oh/verif_time_filter.rs",
    modname="verif_time_filter",
    modpath="filter::time_filter::verif_time_filter",
    deps=["oh.schedule", "oh.date_filter", "syntax.extended_time", "syntax.sorted_vec"],
))

VERUS_UNITS = [
    dict(
        id="verus_extended_time",
        props=["C19", "C04"],
        template="verus/extended_time.verus.rs",
        kani_unit="syntax.extended_time",
        lemmas=["C19.verus.lemma_roundtrip", "C19.verus.lemma_lex_order_is_minute_order", "C19.verus.exec_roundtrip"],
    ),
]

COMMON_ASSUMPTIONS = [
    "tools trusted: Kani 0.68 + CBMC 6.11 + CaDiCaL/kissat, Verus 0.2026.09.13 + Z3; rustc MIR as compiled by Kani's pinned nightly / Verus's pinned 1.98.1 (not the stable toolchain that builds the release)",
    "overlay.py / verus_extract.py are trusted to copy text; checked on every run by the add-only diff and per-body SHA-256",
    "machine arithmetic is bit-precise in Kani; Verus uses mathematical integers with overflow obligations on executable code",
    "termination is not proved by Kani (bounded unwinding with unwinding assertions only)",
]

# Per-property level and the clauses of the statement that no obligation speaks to.
PROPS = {
    "C08": dict(level="other", technique="Kani contract harnesses (assert form) per selector / unit", level_text="TODO", level_note="TODO"),
    "C04": dict(level="other", technique="Kani contract harnesses (assert form) per selector / unit", level_text="TODO", level_note="TODO"),
    "C02": dict(level="other", technique="Kani contract harnesses (assert form) per selector / unit", level_text="TODO", level_note="TODO"),
    "C01": dict(level="other", technique="Kani contract harnesses (assert form) per selector / unit", level_text="TODO", level_note="TODO"),
    "C14": dict(level="other", technique="Kani contract harnesses (assert form), bounded lengths, trusted sort model", level_text="TODO", level_note="TODO"),
    "C20": dict(level="other", technique="Kani contract harnesses (assert form), bounded lengths", level_text="TODO", level_note="TODO"),
    "C15": dict(
        level="other",
        technique="Kani function contracts, modular (month -> year -> calendar via stub_verified)",
        level_text="TODO",
        level_note="TODO",
    ),
    "C19": dict(
        level="proof",
        technique="function contracts: Verus on verbatim-extracted bodies + Kani full-domain contract harnesses",
        level_text="Every arithmetic/ordering/conversion clause of the statement is a postcondition proved for all inputs: Verus (mathematical integers, unbounded) on the five method bodies extracted verbatim each run, and Kani/CBMC loop-free harnesses over the complete input domains (all u8xu8, u16, i16, i8 values) on the annotated real crate, including the compiler-derived Ord and the chrono conversions. A refuted obligation is replayed natively on the real function.",
        level_note="Trusted: Kani/CBMC/CaDiCaL, Verus/Z3, the overlay/extraction tools (checked by add-only diff and SHA-256), one Verus assume_specification (i16::from(u8)), chrono's NaiveTime code executed by CBMC. The Display clause ('zero-padded HH:MM') is not decided (core::fmt is beyond both back ends) and is listed as undecided in the evidence.",
        explanation="All clauses except 'Printing gives zero-padded HH:MM' are decided: Verus (unbounded integers, "
                    "bodies extracted verbatim) for the five arithmetic methods and the two lemmas, Kani full-domain "
                    "loop-free harnesses (all u8 x u8 / u16 / i16 / i8 values, derived Ord, chrono NaiveTime conversions).",
        undecided_clauses=["'Printing gives zero-padded HH:MM' (Display through core::fmt: CBMC exhausts 25 GB, Verus has no "
                           "string reasoning) - not decided deductively"],
        trusted_base=["chrono 0.4.39 NaiveTime::from_hms_opt / hour / minute executed as real code by CBMC"],
        assumptions=["Verus assume_specification: <i16 as From<u8>>::from(x) == x (no vstd spec for this impl)"],
    ),
}
