"""Ledger of verification units: which harness module is overlaid onto which source file of /repo.

package  : cargo package the harnesses are compiled in ('' = workspace root package `opening-hours`)
owner    : source file (relative to the repo root) that gets `mod <modname>;` appended (add-only)
harness  : harness file in /verif/kani, copied next to the owner as <modname>.rs
modpath  : Rust module path of the harness module inside the package (harness = modpath::fn)
contracts: optional file with contract attributes to insert above real fns (add-only)
"""

# crate roots that get the shared `verif_nd` module
ND_ROOTS = {
    "compact-calendar": "compact-calendar/src/lib.rs",
    "opening-hours-syntax": "opening-hours-syntax/src/lib.rs",
    "opening-hours": "opening-hours/src/lib.rs",
}

UNITS = [
    dict(
        id="calendar",
        package="compact-calendar",
        owner="compact-calendar/src/lib.rs",
        harness="kani/calendar/verif_calendar.rs",
        modname="verif_calendar",
        modpath="verif_calendar",
        contracts="contracts/compact_calendar.contracts",
    ),
    dict(
        id="syntax.sorted_vec",
        package="opening-hours-syntax",
        owner="opening-hours-syntax/src/sorted_vec.rs",
        harness="kani/syntax/verif_sorted_vec.rs",
        modname="verif_sorted_vec",
        modpath="sorted_vec::verif_sorted_vec",
    ),
    dict(
        id="syntax.extended_time",
        package="opening-hours-syntax",
        owner="opening-hours-syntax/src/extended_time.rs",
        harness="kani/syntax/verif_extended_time.rs",
        modname="verif_extended_time",
        modpath="extended_time::verif_extended_time",
        contracts="contracts/extended_time.contracts",
    ),
]

UNITS.append(dict(
    id="oh.schedule",
    package="",
    owner="opening-hours/src/schedule.rs",
    harness="kani/oh/verif_schedule.rs",
    modname="verif_schedule",
    modpath="schedule::verif_schedule",
    pub_mod=True,
    deps=["syntax.sorted_vec", "syntax.extended_time"],
))

UNITS.append(dict(
    id="oh.date_filter",
    package="",
    owner="opening-hours/src/filter/date_filter.rs",
    harness="kani/oh/verif_date_filter.rs",
    modname="verif_date_filter",
    modpath="filter::date_filter::verif_date_filter",
    pub_mod=True,
    deps=["syntax.extended_time"],
))

UNITS.append(dict(
    id="oh.dated",
    package="",
    owner="opening-hours/src/filter/date_filter.rs",
    harness="kani/oh/verif_dated.rs",
    modname="verif_dated",
    modpath="filter::date_filter::verif_dated",
    deps=["oh.date_filter", "syntax.extended_time"],
))

UNITS.append(dict(
    id="oh.coordinates",
    package="",
    owner="opening-hours/src/localization/coordinates.rs",
    harness="kani/oh/verif_coordinates.rs",
    modname="verif_coordinates",
    modpath="localization::coordinates::verif_coordinates",
    deps=["syntax.extended_time"],
))

UNITS.append(dict(
    id="oh.country",
    package="",
    owner="opening-hours/src/localization/country/mod.rs",
    harness="kani/oh/verif_country.rs",
    modname="verif_country",
    modpath="localization::country::verif_country",
    deps=["syntax.extended_time"],
))

UNITS.append(dict(
    id="oh.time_filter",
    package="",
    owner="opening-hours/src/filter/time_filter.rs",
    harness="kani/oh/verif_time_filter.rs",
    modname="verif_time_filter",
    modpath="filter::time_filter::verif_time_filter",
    deps=["oh.schedule", "oh.date_filter", "syntax.extended_time", "syntax.sorted_vec"],
))

UNITS.append(dict(
    id="syntax.day",
    package="opening-hours-syntax",
    owner="opening-hours-syntax/src/rules/day.rs",
    harness="kani/syntax/verif_day.rs",
    modname="verif_day",
    modpath="rules::day::verif_day",
))
UNITS.append(dict(
    id="syntax.rules",
    package="opening-hours-syntax",
    owner="opening-hours-syntax/src/rules/mod.rs",
    harness="kani/syntax/verif_rules.rs",
    modname="verif_rules",
    modpath="rules::verif_rules",
))
UNITS.append(dict(
    id="oh.opening_hours",
    package="",
    owner="opening-hours/src/opening_hours.rs",
    harness="kani/oh/verif_opening_hours.rs",
    modname="verif_opening_hours",
    modpath="opening_hours::verif_opening_hours",
    deps=["oh.schedule", "oh.date_filter", "syntax.extended_time", "syntax.sorted_vec"],
))

UNITS.append(dict(
    id="oh.iter",
    package="",
    owner="opening-hours/src/opening_hours.rs",
    harness="kani/oh/verif_iter.rs",
    modname="verif_iter",
    modpath="opening_hours::verif_iter",
    deps=["oh.schedule", "oh.date_filter", "syntax.extended_time", "syntax.sorted_vec"],
))

VERUS_UNITS = [
    dict(
        id="verus_extended_time",
        props=["C19", "C04"],
        template="verus/extended_time.verus.rs",
        kani_unit="syntax.extended_time",
        lemmas=["C19.verus.lemma_roundtrip", "C19.verus.lemma_lex_order_is_minute_order", "C19.verus.exec_roundtrip"],
    ),
    dict(
        id="verus_sorted_vec",
        props=["C20", "C17", "C04"],
        template="verus/sorted_vec.verus.rs",
        kani_unit="syntax.sorted_vec",
        lemmas=["C20.verus.lemma_first_following_is_the_least_not_smaller"],
    ),
    dict(
        id="verus_compact_calendar",
        props=["C15", "C04", "C01", "C02"],
        template="verus/compact_calendar.verus.rs",
        kani_unit="calendar",
        lemmas=["C15.verus.lemma_set_bit", "C15.verus.lemma_zero_bit", "C15.verus.lemma_insert_then_contains"],
    ),
]

COMMON_ASSUMPTIONS = [
    "tools trusted: Kani 0.68 + CBMC 6.11 + CaDiCaL/kissat, Verus 0.2026.09.13 + Z3; rustc MIR as compiled by Kani's pinned nightly / Verus's pinned 1.98.1 (not the stable toolchain that builds the release)",
    "overlay.py / verus_extract.py are trusted to copy text; checked on every run by the add-only diff and per-body SHA-256",
    "machine arithmetic is bit-precise in Kani; Verus uses mathematical integers with overflow obligations on executable code",
    "termination is not proved by Kani (bounded unwinding with unwinding assertions only)",
]

# Per-property level and the clauses of the statement that no obligation speaks to.
_TB_COMMON = [
    "Kani 0.68 / CBMC 6.11 / CaDiCaL (bit-precise machine arithmetic); rustc MIR from Kani's pinned nightly",
    "chrono 0.4.39 and std (Vec, VecDeque, slices, iterators) are executed as real code by CBMC, not specified",
]

PROPS = {
    "C01": dict(
        level="other",
        technique="Kani contract harnesses (assert form) per selector and time-span unit, full symbolic node x date domains",
        level_text="Partial. The clause 'a rule applies on a day iff the day satisfies its year, month, week-number and weekday/holiday selectors (steps, nth positions, offsets, wrapping ranges, leap days, Easter)' is decided per selector type: for every AST node satisfying the grammar's invariants and every date 1900..9999 the real `filter` equals an arithmetic spec predicate (year, month, ISO week, weekday with nth-of-month, holiday calendars, list = disjunction, DaySelector = conjunction), with the leaf kernels (count_days_in_month, easter against an independent computus, valid_ymd clamps, wrapping ranges, Month next/prev) under their own contracts; 'time spans passing midnight continue on the following day' and the default sun-event times are contracts on TimeSpan::as_naive and time_selector_intervals_at(_next_day). Loop-free full-domain harnesses are complete proofs of their obligation; list/selector lengths and day offsets are bounded and labelled so. Dated ranges (`Dec 24-Jan 6`, `2021 Mar 28-Apr 16`, `2020 Jan 1-2025 Dec 31`) are decided modularly: the pairing code against its contract on arrays of symbolic dates (bounded lengths), and the real `MonthdayRange::Date` arms of `filter` against 'every day from start to end, recurring yearly when no year is given, through new year when the end precedes the start' with the pairing entry points and the valid_ymd leaves replaced by their contracts (year-ful ranges for all nodes x all dates; year-less ranges for every day of representative years in the quick tier, all dates in the thorough tier). The rule-combination loop of schedule_at is not decided by the registered commands (the harnesses are kept with tier=off); The leap-day selector `Feb 29` is decided for every day of representative years (2024; 2097 and 9997 thorough - the 8-year gap around 2100 closed by an unwinding assertion), Easter ranges with day offsets in the thorough tier; weekday offsets on dated ranges and the parser link are not decided.",
        level_note="Assumes the AST invariants read off grammar.pest/build_* (the parser is not verified, C05). Holiday calendars are abstracted by contract models (membership / least member after) justified by the C15 contracts; std sort replaced by an insertion-sort model in the time-selector harness. Not decided: rule combination in schedule_at (harnesses exist, tier=off: heap-model artefacts of CBMC), offset dated ranges, sun events with coordinates (C11).",
        explanation="PARTIAL: selector-level and time-span-level clauses only.",
        undecided_clauses=[
            "'a later normal rule replaces earlier rules on the days it applies, additional rules and closed rules overlay, fallback rules apply only on days nothing else covered' (the loop of OpeningHours::schedule_at): NOT decided by the registered commands. The harnesses rule_combination_2/3 (real loop over 2-3 rules, callees replaced by contract models) verified in round two, but on the current tree CBMC reports heap-model artefacts in them that do not reproduce natively; they are kept with tier=off (DESIGN.md 0e)",
            "dated ranges with weekday offsets or day offsets on fixed bounds (`Dec 24 -2 days-Jan 6`, `Jan 1 +Su`): not decided; year-less ranges and `Feb 29` are decided for every day of representative years only in the quick tier; `Apr 31`-like ranges of nonexistent days are a recorded known finding",
            "'For every expression the parser accepts': the parser->AST link is assumed (C05 not applicable)",
        ],
        trusted_base=_TB_COMMON + ["contract models of CompactCalendar::contains / first_after over a table of 2 symbolic holidays per calendar (justified by C15)",
                                   "insertion-sort model of core::slice::sort::unstable::sort (time_selector harnesses)",
                                   "dated ranges: contract models of valid_ymd_before/after (discharged by valid_ymd_clamps) and of is_open_from_bounds / next_change_from_bounds (pairing contract, discharged on the real code for bounded list lengths only: (1,1) quick, (0,2),(2,0) thorough; longer lists exceed the memory budget)"],
        assumptions=["AST invariants: years 1900..=9999, steps >= 1, week numbers 1..=53, variable-time offsets |x| <= 24:59, fixed start <= 24:00, end <= 48:00"],
    ),
    "C02": dict(
        level="other",
        technique="Kani contract harnesses: next_change_hint lower-bound contract per selector, is_constant soundness",
        level_text="Partial. The mechanism that lets range iteration skip days is put under contract: for each selector type `next_change_hint(d) = Some(h)` implies h > d and filter(d') = filter(d) for every d' strictly between (one extra symbolic date = every skipped day), for all nodes and all dates (year step=1, year-less and year-ful month ranges, ISO weeks, holidays over abstract calendars, lists and DaySelector = earliest hint; dated ranges: the pairing code's next_change against its contract on bounded bound lists, and the real hint arms of `2024 Mar 1-2024 Apr 15` / `2021 Mar 28-Apr 16` / year-less ranges against that contract and the hint contract); `is_constant()` implies that every day evaluates to one and the same full-day kind under a spec fold of the rule list written from C01's statement (bounded: <= 2 rules quick, 3 thorough). These are necessary conditions for 'no state change is skipped'; the stream-level statement itself (an invariant of TimeDomainIterator across days) is not decided.",
        level_note="Assumes the AST invariants; holiday calendars abstracted by contract models (C15). The hint of year ranges with step >= 2 is not decided by the registered commands (harness year_hint_step_2_to_4, deep tier: its obligation bundles an upper bound `h <= 10000-01-01` that the property does not require and that `9827-9999/3` violates harmlessly). Not decided: the interval stream produced by TimeDomainIterator (non-empty, increasing, gap-free, exact cover, adjacent states differ): CBMC gives no answer on any expression and Verus rejects the code; the composition of per-rule hints in OpeningHours::next_change_hint (spill-over of the previous day, `Jul 22 04:00-48:00`).",
        explanation="PARTIAL: hint contracts and is_constant only; the stream-level clauses are undecided.",
        undecided_clauses=[
            "'the intervals produced by range iteration are non-empty, in increasing order, gap-free and cover exactly [from, min(to, 10000-01-01))', 'the state of each interval is the state the daily schedules give', 'consecutive intervals have different states' - invariants of TimeDomainIterator over a caller history: not decided",
            "the composition of hints in OpeningHours::next_change_hint with time selectors that spill into the next day (`Jul 22 04:00-48:00` stays open for a year: recorded in DESIGN.md only)",
            "hints of Easter-based and offset dated ranges: not decided",
        ],
        trusted_base=_TB_COMMON + ["contract models of CompactCalendar::contains / first_after (holiday hints)"],
        assumptions=["AST invariants as for C01"],
    ),
    "C04": dict(
        level="other",
        technique="Kani automatic panic/overflow/bounds obligations on every unit under contract + Verus overflow obligations",
        level_text="Partial. For every function under contract (ExtendedTime, UniqueSortedVec, CompactCalendar/Year/Month, Schedule::from_ranges and iteration, all date and time selector filters and hints, date kernels, is_constant) Kani's automatic obligations - arithmetic overflow, unwrap/expect on None/Err, slice bounds, explicit panic!/assert!/unreachable! - are discharged for all inputs satisfying the stated precondition; Verus discharges overflow and unwrap/expect/assert obligations on the ExtendedTime arithmetic and on CompactCalendar/Year/Month insert/contains (unbounded calendars). `parse`, Display, normalize and the interval iterator are not covered, and termination is not proved.",
        level_note="Arithmetic overflow is counted as a panic (dev profile). Preconditions are the AST invariants of the grammar; the one region where they admit a panic (day offsets beyond chrono's date range, `Mo[1] +999999999 days`) is a recorded known finding with an expected-to-fail twin harness. Not decided: parse on arbitrary strings (pest), printing, normalize, state/next_change/iteration as wholes, bounded work.",
        explanation="PARTIAL: per-unit absence of panics only.",
        undecided_clauses=[
            "'parse returns Ok or Err for every string' (pest-generated parser; the `10:00-12:00/30` panic in build_timespan is recorded in DESIGN.md only)",
            "'printing, normalizing, state, next_change and range iteration return normally after a bounded amount of work' - whole-API totality and termination are not decided",
        ],
        trusted_base=_TB_COMMON + ["Verus / Z3 for the ExtendedTime and compact-calendar obligations (assumed: chrono NaiveDate accessor ranges, VecDeque accessor specs)"],
        assumptions=["AST invariants as for C01; unwinding bounds per harness with unwinding assertions on"],
    ),
    "C08": dict(
        level="other",
        technique="Kani contract harnesses: schedule_at range guard, hint upper bounds, pre-1900 jump",
        level_text="Partial. 'Before 1900-01-01 and from 10000-01-01 on every expression is closed': schedule_at returns the empty schedule for every date chrono can represent outside the range (one-rule expressions whose contribution is an arbitrary contract model), and iteration of the empty schedule is one closed range (C14). 'From an instant before 1900 ...': next_change_hint(d) = 1900-01-01 for every d before it. 'Results never leave the range' at selector level: every hint contract includes h <= 10000-01-01 and valid_ymd clamps saturate there. The clipping of reported intervals to [from, min(to, 10000-01-01)) inside iter_range/next_change is not decided.",
        level_note="rule_sequence_schedule_at replaced by a contract model (arbitrary contribution); the day selector of the rule is the real empty one because Kani cannot stub generic trait methods. Not decided: clipping closures inside iter_range_naive / next_change (need the iterator).",
        explanation="PARTIAL: guard and hint-bound clauses only.",
        undecided_clauses=[
            "'No reported interval starts before the requested start or ends after min(requested end, 10000-01-01T00:00); next_change never returns an instant at or beyond 10000-01-01' - these live in closures applied to the interval iterator's output: not decided",
        ],
        trusted_base=_TB_COMMON + ["contract model of rule_sequence_schedule_at (contributes nothing or a whole-day open schedule with a comment)"],
        assumptions=[],
    ),
    "C10": dict(
        level="other",
        technique="Kani full-domain contract harnesses on the generated Country::iso_code / from_str / ALL",
        level_text="Partial: one of the three sentences. 'The set of countries, their ISO codes and the code parser are mutually consistent (parsing a country's code gives that country, anything else is rejected)': for every country of Country::ALL (symbolic index) the code is two upper-case ASCII letters, from_str(iso_code(c)) == Ok(c), ALL lists each country once and codes are pairwise distinct; for every string of 0..=3 ASCII bytes, from_str accepts it iff it is the code of a listed country and then returns that country (complete over these domains; longer and non-ASCII strings are not covered). Nothing is decided about the embedded calendars ('contains the date iff the source data file lists it') nor about what PH/SH selectors see with a country's calendar attached.",
        level_note="The enum, iso_code, from_str and ALL are generated code (scripts/generate-holidays.py); the harness runs the real generated functions. The embedded, deflate-compressed calendar data and its build-time encoding are outside any function contract (calendar framing itself is C15).",
        explanation="PARTIAL: country-code consistency only; embedded calendar contents undecided.",
        undecided_clauses=[
            "'For each supported country and every date, the embedded public (resp. school) holiday calendar contains the date iff the source data file lists it for that country' - data integrity across build script, deflate and env!-embedded bytes: not decided",
            "'PH/SH selectors see exactly these dates when a country's calendar is attached' - follows from the holiday filter contract (C01) only given the calendars: not decided here",
            "strings longer than 3 bytes or containing non-ASCII bytes passed to from_str: not covered",
        ],
        trusted_base=_TB_COMMON,
        assumptions=[],
    ),
    "C11": dict(
        level="other",
        technique="Kani full-domain contract harnesses: Coordinates::new over all f64 pairs, default sun-event times",
        level_text="Partial: two of the four sentences. 'Without coordinates, dawn, sunrise, sunset and dusk are 06:00, 07:00, 19:00 and 20:00 on every date': the default Localize::event_time through TimeEvent::as_naive for all four events x all dates (complete). 'A coordinate pair is accepted iff latitude is in [-90, 90], longitude in [-180, 180] and neither is NaN': Coordinates::new (which runs the real sunrise::Coordinates::new) for all 2^128 pairs of f64 bit patterns, and lat()/lon() return the accepted pair bit for bit (complete). The physical ordering of the events computed from coordinates, zone inference and 'every accepted pair yields a zone and evaluates' are not decided.",
        level_note="CBMC's IEEE-754 semantics for f64 comparisons and is_nan are trusted. The sunrise crate's solar geometry (f64 trigonometry) and the tzf-rs polygon lookup are outside both back ends; nothing is claimed about them.",
        explanation="PARTIAL: coordinate acceptance and default event times only; the ordering of computed sun events is undecided.",
        undecided_clauses=[
            "'With coordinates of latitude within 60 degrees and the zone inferred from them, on every date the local event times satisfy dawn < sunrise < solar noon < sunset < dusk, so sunrise-sunset is open at solar noon and closed at solar midnight' - f64 trigonometry in the external sunrise crate and zone inference from a polygon database: not decided",
            "'every accepted pair yields a zone and evaluates' (TzLocation::from_coords / Context::from_coords over the tzf-rs database): not decided",
        ],
        trusted_base=_TB_COMMON + ["sunrise 1.2.1 Coordinates::new executed as real code by CBMC"],
        assumptions=[],
    ),
    "C14": dict(
        level="other",
        technique="Kani contract harnesses (assert form) on Schedule::from_ranges / insert / addition / IntoIter, bounded lengths",
        level_text="Bounded and partial. from_ranges: for any 1-2 (3 thorough) input ranges with bounds anywhere in 00:00..=48:00 (overlapping, nested, adjacent, empty, inverted) the result has non-empty, increasing, disjoint ranges and covers exactly the union of the inputs (one symbolic query minute = every minute). Iteration of any well-formed schedule of <= 2 ranges: gap-free tiling from 00:00, non-empty items, adjacent kinds differ, closed in holes, at most 2n+1 items, covers the day. insert/addition only for an empty left or right operand: with a non-empty existing schedule CBMC needs > 60 GB (drop/clone glue of Vec<Arc<str>> on symbolic heap contents), so 'after addition every minute shows the kind of the most recently added schedule' is not decided.",
        level_note="Trusted models: core::slice::sort::unstable::sort (insertion sort through the caller's comparison) and, in these kind/range harnesses, the comment union (left operand; comments never influence control flow in schedule.rs; the real union is verified under C20). Lengths bounded as stated per harness.",
        explanation="BOUNDED (<= 2 ranges, 3 in thorough) and PARTIAL (addition with two non-empty operands undecided).",
        undecided_clauses=[
            "'after addition every minute shows the kind of the most recently added schedule covering it, earlier schedules showing through elsewhere' for two non-empty operands (Schedule::insert with existing ranges): out of CBMC's reach (> 60 GB), Verus rejects the code",
        ],
        trusted_base=_TB_COMMON + ["insertion-sort model of core::slice::sort::unstable::sort", "left-operand model of UniqueSortedVec::union (empty comment sets)"],
        assumptions=["operand lengths bounded per harness (const generics); all range bounds and kinds symbolic"],
    ),
    "C15": dict(
        level="other",
        technique="function contracts: Verus on verbatim-extracted insert/contains (unbounded calendars) + Kani function contracts, modular (CompactMonth -> CompactYear -> CompactCalendar via stub_verified)",
        level_text="Proved without bound (Verus, bodies extracted verbatim every run): `insert` and `contains` of CompactMonth, CompactYear and CompactCalendar and the three `default()` constructors - for a calendar of ANY number of stored years, any date of chrono's range and any query date, `insert` reports whether the date was new, adds exactly that date to the set view `has(y, m, d)` and changes nothing else (whole-view postcondition), keeps the type invariant, and cannot overflow or hit a failing unwrap/expect/assert; `contains` is membership. Complete (Kani, all 2^31 bitmaps x all days, 12 symbolic months): month/year first, first_after, count, iter and (de)serialisation incl. short reads. Bounded (Kani, <= 3 stored years, window anywhere in chrono's range): calendar count, first_after (strictly next member, also across empty years), equality, and - thorough tier - iteration and calendar-level serialisation.",
        level_note="Verus side: chrono::NaiveDate is an opaque stand-in whose year()/month()/day() are assumed to return values in chrono's documented ranges; VecDeque::{get, get_mut, back_mut, front_mut, is_empty} are assume_specifications over vstd's Seq view; loop invariants of the two growth loops are annotations spliced by the extractor (add-only, checked). Kani side: contracts overlaid as #[kani::requires/ensures/modifies] attributes; quick tier proves the same predicates in assert form where Kani's contract instrumentation is 60-200x more expensive. Calendar-level Kani harnesses bounded: <= 3 stored years, window growth <= 3 years per insert.",
        explanation="insert/contains/default: PROVED unbounded (Verus); month/year first/first_after/count/iter/serde: complete (Kani); calendar count/first_after/eq/iter/serde: BOUNDED (<= 3 stored years).",
        undecided_clauses=[
            "calendar-level count, ordered iteration, first_after, equality and serialisation for windows of more than 3 stored years (iterator chains and io::Read/Write are outside Verus's dialect; Kani harnesses are bounded)",
        ],
        trusted_base=_TB_COMMON + ["Verus 0.2026.09.13 / Z3 (mathematical integers with overflow obligations)",
                                   "assumed contracts: chrono::NaiveDate::{year, month, day} ranges; std VecDeque::{get, get_mut, back_mut, front_mut, is_empty}"],
        assumptions=["calendar-level Kani harnesses: window of <= 3 stored years anywhere in chrono's range, growth <= 3 years"],
    ),
    "C17": dict(
        level="other",
        technique="Kani contract harnesses: UniqueSortedVec invariant (From<Vec>, union), schedule_at range guard",
        level_text="Partial and bounded; only two clauses are decided. 'Sorted, free of duplicates': comment sets are UniqueSortedVec values whose only constructors are From<Vec> (used by the parser) and union (used by Schedule); both are proved to yield strictly increasing, duplicate-free vectors holding exactly the input elements (bounded lengths, instance u8, shared with C20; in C17's quick command From<Vec> <= 3 and union at (1,1),(0,2),(2,0), the longer union operands in its thorough command and in C20's quick command). 'Empty outside the supported date range': schedule_at returns the empty schedule - no ranges, hence no comments - for every date outside 1900..9999 (expression without rules). Which rule's comments a period carries (Schedule::from_ranges / insert / iteration with real Arc<str> sets, the interval iterator) is not decided: every such harness exceeded 24 GB in CBMC.",
        level_note="The invariant is proved on the u8 instance of the generic code (the comparison is the only type-specific operation). Harnesses with real Arc<str> comments are kept in kani/oh/verif_schedule.rs with tier=off and the measured reason. Neither of the two seeded C17 changes is caught by this check.",
        explanation="PARTIAL (2 of 5 clauses) and BOUNDED.",
        undecided_clauses=[
            "'all taken from rules of the expression'; 'an open or unknown period contributed by exactly one rule ... carries exactly that rule's comments' - Schedule-level harnesses with real Arc<str> sets are out of CBMC's reach (> 24 GB)",
            "'range iteration reports for its first interval the comments of the schedule period containing the start instant' (TimeDomainIterator): not decided",
            "'empty on days to whose schedule no rule contributes': needs the loop of schedule_at: not decided",
        ],
        trusted_base=_TB_COMMON,
        assumptions=["generic UniqueSortedVec<T> verified at T = u8"],
    ),
    "C19": dict(
        level="proof",
        technique="function contracts: Verus on verbatim-extracted bodies + Kani full-domain contract harnesses",
        level_text="Every arithmetic/ordering/conversion clause of the statement is a postcondition proved for all inputs: Verus (mathematical integers, unbounded) on the five method bodies extracted verbatim each run, and Kani/CBMC loop-free harnesses over the complete input domains (all u8xu8, u16, i16, i8 values) on the annotated real crate, including the compiler-derived Ord and the chrono conversions. A refuted obligation is replayed natively on the real function.",
        level_note="Trusted: Kani/CBMC/CaDiCaL, Verus/Z3, the overlay/extraction tools (checked by add-only diff and SHA-256), one Verus assume_specification (i16::from(u8)), chrono's NaiveTime code executed by CBMC. The Display clause ('zero-padded HH:MM') is not decided (core::fmt is beyond both back ends) and is listed as undecided in the evidence.",
        explanation="All clauses except 'Printing gives zero-padded HH:MM' are decided: Verus (unbounded integers, "
                    "bodies extracted verbatim) for the five arithmetic methods and the two lemmas, Kani full-domain "
                    "loop-free harnesses (all u8 x u8 / u16 / i16 / i8 values, derived Ord, chrono NaiveTime conversions).",
        undecided_clauses=["'Printing gives zero-padded HH:MM' (Display through core::fmt: CBMC exhausts 25 GB, Verus has no "
                           "string reasoning) - not decided deductively"],
        trusted_base=["chrono 0.4.39 NaiveTime::from_hms_opt / hour / minute executed as real code by CBMC"],
        assumptions=["Verus assume_specification: <i16 as From<u8>>::from(x) == x (no vstd spec for this impl)"],
    ),
    "C20": dict(
        level="other",
        technique="function contracts: Verus on verbatim-extracted contains / find_first_following / new (any length, any T: Ord) + Kani contract harnesses (assert form) on From<Vec>, union and the searches, bounded lengths, all u8 values",
        level_text="Proved without bound (Verus, bodies extracted verbatim, generic T: Ord with vstd's specification of Ord::cmp): on any value satisfying the type invariant (strictly increasing), `contains` agrees with membership and `find_first_following` returns the first element not smaller than the argument (every earlier element is smaller; None iff all are smaller) - relative to an assumed contract of std's slice binary_search. Bounded (Kani, element type u8 with every value symbolic, operand lengths concrete per harness): From<Vec> (<= 3 quick, 4 deep) yields exactly the distinct elements in strictly increasing order; union of any two values satisfying the invariant (lengths up to (2,2)) is strictly increasing and exactly the set union, with every arm of the five-way case split covered; the two searches again (<= 4, real binary_search executed); new/default/clone/to_ref/into keep elements and invariant.",
        level_note="Verus side: assume_specification for <[T]>::binary_search (Ok(i): element i equals x; Err(i): insertion point) - listed in the evidence; the invariant is a precondition there. `From<Vec>` (sort_unstable, dedup without vstd specification) and `union` (slice patterns, `mut self`) are outside Verus's dialect and stay bounded. Real std sort and dedup are executed by CBMC (no sort model).",
        explanation="contains / find_first_following: PROVED unbounded relative to the assumed binary_search contract (Verus); From<Vec>, union: BOUNDED (Kani, lengths as stated per harness, instance u8).",
        undecided_clauses=["From<Vec> and union for unbounded lengths and element types other than u8 (Arc<str> is exercised under C17)"],
        trusted_base=_TB_COMMON + ["Verus 0.2026.09.13 / Z3; vstd's specification of Ord::cmp (cmp_spec)", "assumed contract: core::slice::binary_search"],
        assumptions=[],
    ),
}
