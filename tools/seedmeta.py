#!/usr/bin/env python3
"""(Re)generate seeded/<id>/meta.json from note.md, confirm.json and the result-*.json files of each seed."""
import glob
import json
import os

VERIF = os.path.dirname(os.path.dirname(os.path.abspath(__file__)))
for d in sorted(glob.glob(os.path.join(VERIF, "seeded", "C*-*"))):
    s = os.path.basename(d)
    old = {}
    mp = os.path.join(d, "meta.json")
    if os.path.exists(mp):
        old = json.load(open(mp))
    note = open(os.path.join(d, "note.md")).read() if os.path.exists(os.path.join(d, "note.md")) else ""
    conf = json.load(open(os.path.join(d, "confirm.json"))) if os.path.exists(os.path.join(d, "confirm.json")) else {}
    checks, caught_by = [], []
    for rp in sorted(glob.glob(os.path.join(d, "result-*.json"))):
        r = json.load(open(rp))
        checks.append(dict(cmd=r.get("cmd"), exit=r.get("exit"), caught=r.get("caught"), failed_obligations=r.get("failed_obligations"),
                           undecided=r.get("undecided"), wall_s=r.get("wall_s")))
        if r.get("caught"):
            caught_by += [f.split("failed obligation: ")[-1].split(" in ")[0] for f in r.get("failed_obligations", [])]
    m = dict(
        id=s,
        breaks_property=s.split("-")[0],
        what=" ".join(note.split())[:900],
        needs_to_manifest="see note.md",
        written_by=old.get("written_by", "fresh sub-agent given only the property text and its own scratch worktree of /repo"),
        confirmed=old.get("confirmed", conf.get("confirmed")) if "superseded" in old else conf.get("confirmed"),
        what_was_run=dict(
            confirm=f"tools/seedconfirm.py {s}: cargo test --workspace (excluding the 256 generated fuzz-corpus tests) with the patch on a scratch copy of /repo; demo with and without the patch",
            suite_passed_with_patch=conf.get("suite_with_patch", {}).get("n_passed"),
            demo_fails_with_patch=(not conf.get("demo_with_patch", {}).get("passed")) if conf else None,
            demo_passes_without_patch=conf.get("demo_without_patch", {}).get("passed"),
            checks=checks),
        caught_by=sorted(set(caught_by)),
    )
    if "superseded" in old:
        m["superseded"] = old["superseded"]
    json.dump(m, open(mp, "w"), indent=1)
print("meta.json written")
