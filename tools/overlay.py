"""Build the annotated per-run copy of /repo's *current working tree* (add-only overlay).

What is added, and nothing else:
  * contract attribute lines (`#[cfg_attr(kani, kani::requires/ensures/modifies(..))]`) immediately above the
    real fn items named in contracts/*.contracts (located by impl-header regex + fn name, never by line number);
  * `#[cfg(any(kani, verif_replay))] mod <harness>;` lines appended to the files that own private items;
  * `#[cfg(any(kani, verif_replay))] pub mod verif_nd;` appended to each crate root;
  * the harness files themselves (new files).
Afterwards every overlaid file is diffed against /repo: any deleted or changed line is an error.
"""
import difflib
import hashlib
import os
import re
import shutil
import subprocess
import sys

sys.path.insert(0, os.path.dirname(os.path.abspath(__file__)))
import ledger  # noqa: E402
import rsrc  # noqa: E402

VERIF = os.path.dirname(os.path.dirname(os.path.abspath(__file__)))
REPO = os.environ.get("VERIF_REPO", "/repo")

CFG = "#[cfg(any(kani, verif_replay))]"


class OverlayError(Exception):
    pass


def parse_contracts(path):
    """-> list of dict(file, impl, fn, lines)"""
    out, cur = [], None
    for raw in open(path):
        line = raw.rstrip("\n")
        if line.startswith("#") and not line.startswith("#["):
            continue
        if line.startswith("@@"):
            cur = dict(file=None, impl=None, fn=None, lines=[])
            body = line[2:].strip()
            # keys: file=, impl=, fn=   (impl value may contain spaces; it ends at " fn=")
            m = re.match(r"(?:file=(\S+)\s+)?(?:impl=(.*?)\s+)?fn=(\S+)\s*$", body)
            if not m:
                raise OverlayError(f"{path}: bad anchor line: {line}")
            cur["file"], cur["impl"], cur["fn"] = m.group(1), m.group(2), m.group(3)
            out.append(cur)
        elif cur is not None and line.strip():
            cur["lines"].append(line)
    return out


def copy_tree(dest):
    if os.path.exists(dest):
        shutil.rmtree(dest)
    os.makedirs(dest)
    subprocess.run(
        ["rsync", "-a", "--exclude", "/target", "--exclude", ".git", "--exclude", "/fuzz/target",
         "--exclude", "__pycache__", "--exclude", "/dist", REPO.rstrip("/") + "/", dest + "/"],
        check=True,
    )


def sha(s: str) -> str:
    return hashlib.sha256(s.encode()).hexdigest()


def build(dest, unit_ids=None):
    """Create the overlay copy at `dest`.  Returns a report dict.  Raises OverlayError on a lost anchor."""
    copy_tree(dest)
    units = [u for u in ledger.UNITS if unit_ids is None or u["id"] in unit_ids]
    report = dict(files={}, contracts=[], units=[u["id"] for u in units], lost_anchors=[])
    edits = {}  # relpath -> list of (char_index, text) insertions ; appended text kept separately
    appends = {}

    def src_of(rel):
        with open(os.path.join(dest, rel)) as f:
            return f.read()

    packages = set()
    for u in units:
        packages.add(u["package"] or "opening-hours")
        owner = u["owner"]
        appends.setdefault(owner, [])
        decl = f'{CFG}\nmod {u["modname"]};'
        if u.get("pub_mod"):
            decl = f'{CFG}\npub(crate) mod {u["modname"]};'
        appends[owner].append(decl)
        # harness file location: next to the owner for mod.rs/lib.rs, else in <owner stem>/ directory
        odir, obase = os.path.split(owner)
        if obase in ("lib.rs", "mod.rs", "main.rs"):
            hdst = os.path.join(odir, u["modname"] + ".rs")
        else:
            hdst = os.path.join(odir, obase[:-3], u["modname"] + ".rs")
        os.makedirs(os.path.join(dest, os.path.dirname(hdst)), exist_ok=True)
        shutil.copy(os.path.join(VERIF, u["harness"]), os.path.join(dest, hdst))
        if u.get("contracts"):
            for c in parse_contracts(os.path.join(VERIF, u["contracts"])):
                rel = c["file"] or owner
                src = src_of(rel)
                try:
                    loc = rsrc.find_fn(src, c["fn"], c["impl"])
                except rsrc.AnchorError as e:
                    report["lost_anchors"].append(f'{rel}: {c["impl"]} fn {c["fn"]}: {e}')
                    continue
                line_start = loc["sig_start"]
                indent = re.match(r"[ \t]*", src[line_start:]).group(0)
                text = "".join(indent + ln + "\n" for ln in c["lines"])
                edits.setdefault(rel, []).append((line_start, text))
                body = src[loc["sig_start"]:loc["body_close"] + 1]
                report["contracts"].append(
                    dict(file=rel, impl=c["impl"], fn=c["fn"], clauses=c["lines"], fn_sha256=sha(body),
                         unit=u["id"])
                )
    for pkg in packages:
        root = ledger.ND_ROOTS[pkg]
        appends.setdefault(root, []).insert(0, f"{CFG}\npub mod verif_nd;")
        shutil.copy(os.path.join(VERIF, "kani/verif_nd.rs"),
                    os.path.join(dest, os.path.dirname(root), "verif_nd.rs"))
    # the opening-hours crate uses syntax-crate harness helpers: make sure the syntax crate has verif_nd too
    if "opening-hours" in packages and "opening-hours-syntax" not in packages:
        root = ledger.ND_ROOTS["opening-hours-syntax"]
        appends.setdefault(root, []).insert(0, f"{CFG}\npub mod verif_nd;")
        shutil.copy(os.path.join(VERIF, "kani/verif_nd.rs"),
                    os.path.join(dest, os.path.dirname(root), "verif_nd.rs"))

    if report["lost_anchors"]:
        raise OverlayError("lost-anchor: " + "; ".join(report["lost_anchors"]))

    added_total = 0
    for rel in sorted(set(edits) | set(appends)):
        src = src_of(rel)
        new = src
        for pos, text in sorted(edits.get(rel, []), reverse=True):
            new = new[:pos] + text + new[pos:]
        if appends.get(rel):
            if not new.endswith("\n"):
                new += "\n"
            new += "\n" + "\n".join(appends[rel]) + "\n"
        # add-only proof: every line of the original must survive, in order, unchanged
        a, b = src.splitlines(), new.splitlines()
        sm = difflib.SequenceMatcher(a=a, b=b, autojunk=False)
        added = 0
        for tag, i1, i2, j1, j2 in sm.get_opcodes():
            if tag == "insert":
                added += j2 - j1
            elif tag != "equal":
                raise OverlayError(f"overlay of {rel} is not add-only ({tag} at line {i1 + 1})")
        with open(os.path.join(REPO, rel)) as f:
            if f.read() != src:
                raise OverlayError(f"{rel} changed in /repo while the overlay was built")
        with open(os.path.join(dest, rel), "w") as f:
            f.write(new)
        report["files"][rel] = dict(added_lines=added, source_sha256=sha(src))
        added_total += added
    report["added_lines"] = added_total
    report["add_only"] = True
    # offline cargo config for the copy
    os.makedirs(os.path.join(dest, ".cargo"), exist_ok=True)
    with open(os.path.join(dest, ".cargo", "config.toml"), "a") as f:
        f.write("\n[net]\noffline = true\n")
    return report


if __name__ == "__main__":
    import json
    rep = build(sys.argv[1], sys.argv[2:] or None)
    print(json.dumps(rep, indent=1)[:3000])
