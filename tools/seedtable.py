#!/usr/bin/env python3
"""Regenerate seeded/README.md from confirm.json + result-*.json (meta.json is written by tools/seedmeta.py)."""
import glob, json, os
V = os.path.dirname(os.path.dirname(os.path.abspath(__file__)))
rows = []
for d in sorted(glob.glob(os.path.join(V, "seeded", "C*-*"))):
    sid = os.path.basename(d)
    conf = json.load(open(os.path.join(d, "confirm.json"))) if os.path.exists(os.path.join(d, "confirm.json")) else {}
    note = open(os.path.join(d, "note.md")).read().strip().splitlines()
    results = [json.load(open(f)) for f in sorted(glob.glob(os.path.join(d, "result-*.json")))]
    caught = [r for r in results if r["caught"]]
    meta = dict(
        id=sid, breaks_property=sid.split("-")[0],
        what=" ".join(l.strip() for l in note[:12])[:900],
        needs_to_manifest="see note.md",
        confirmed=conf.get("confirmed"),
        what_was_run=dict(
            confirm="tools/seedconfirm.py %s: cargo test --workspace (excluding the 256 generated fuzz-corpus tests) with the patch; demo with and without the patch" % sid,
            suite_passed_with_patch=conf.get("suite_with_patch", {}).get("n_passed"),
            demo_fails_with_patch=not conf.get("demo_with_patch", {}).get("passed", True),
            demo_passes_without_patch=conf.get("demo_without_patch", {}).get("passed"),
            checks=[dict(cmd=r["cmd"], exit=r["exit"], caught=r["caught"], failed_obligations=r["failed_obligations"][:4], wall_s=r["wall_s"]) for r in results],
        ),
        caught_by=sorted({o.split(" in ")[0].replace("failed obligation: ", "") for r in caught for o in r["failed_obligations"]})[:6],
    )
    only = lambda r: (" [" + " ".join(x for x in r["cmd"].split() if x.startswith("dated_") or x.startswith("rule_") or x.startswith("cal_") or x.startswith("usv_")) + "]") if "--only" in r["cmd"] else ""
    rows.append((sid, conf.get("confirmed"), "; ".join(f'{r["property"]}/{r["tier"]}{only(r)}: ' + ("CAUGHT" if r["caught"] else f'missed (exit {r["exit"]})') for r in results) or "not run",
                 ", ".join(meta["caught_by"][:2])))
with open(os.path.join(V, "seeded", "README.md"), "w") as f:
    f.write("# Seeded changes (written by sub-agents from the property text only; confirmed by tools/seedconfirm.py)\n\n")
    f.write("| id | confirmed | check result | obligations that failed |\n|---|---|---|---|\n")
    for r in rows:
        f.write(f"| {r[0]} | {r[1]} | {r[2]} | {r[3][:160]} |\n")
print(open(os.path.join(V, "seeded", "README.md")).read())
