#!/bin/bash
# development aid: build the overlay copy and type-check it natively under --cfg verif_replay (fast), then Kani codegen only
set -e
W=${1:-/var/tmp/verif-dev}
rm -rf $W/ws; mkdir -p $W
python3 /verif/tools/overlay.py $W/ws > /dev/null
cd $W/ws
RUSTFLAGS="--cfg verif_replay -A unexpected_cfgs -A warnings" cargo test --offline --workspace --exclude fuzz --exclude opening-hours-py --lib --no-run --target-dir $W/target-native 2>&1 | grep -E "^(error|warning: unused)|-->|Finished" | head -40
