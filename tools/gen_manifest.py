#!/usr/bin/env python3
"""Regenerate MANIFEST.json from the ledger (claimed properties = ledger.PROPS that have obligations)."""
import json
import os
import sys

sys.path.insert(0, os.path.dirname(os.path.abspath(__file__)))
import ledger  # noqa: E402
import vlib  # noqa: E402

VERIF = vlib.VERIF
BASELINE_CMD = ("cd /repo && cargo nextest run --workspace --no-fail-fast --tool-config-file pb:/w/lib/nextest.toml "
                "--profile pb --test-threads 8 --offline  (fallback: cargo test --workspace --no-fail-fast --offline)")

NOT_APPLICABLE = {
    "C03": "state/next_change are 3-line wrappers over the interval iterator; no expression is within CBMC's reach (even the empty rule list gives no answer in 700 s) and Verus rejects the iterator/closure/chrono code; no function contract within reach can express the clauses (DESIGN.md §4 C03)",
    "C05": "the deciding mechanism is a pest-generated PEG parser over &str plus builders over pest::Pair; neither back end reasons about macro-generated string code, and no function on the path has arguments a harness can quantify over (DESIGN.md §4 C05)",
    "C06": "needs the parser (C05) and fmt::Display string output; equality is 'evaluates identically', which needs the whole evaluator (DESIGN.md §4 C06)",
    "C07": "compares schedule_at of two whole expressions; paving construction and evaluator are beyond CBMC, Verus rejects the code; component lemmas would keep passing on a tree that violates the property (DESIGN.md §4 C07)",
    "C09": "a statement about chrono-tz's generated transition tables (external code and data without contracts) (DESIGN.md §4 C09)",
    "C12": "CPython/pyo3 boundary; no Rust deductive verifier crosses it and there is no Python verifier here (DESIGN.md §4 C12)",
    "C13": "idempotence is a fixpoint property of the whole normalize pipeline; same obstacles as C07 (DESIGN.md §4 C13)",
    "C16": "the bound acts inside TimeDomainIterator across multi-day accumulated intervals; out of reach like C03 (DESIGN.md §4 C16)",
    "C18": "concurrency and lazy statics: Kani has no thread support, Verus would need the code rewritten onto its permission types (DESIGN.md §4 C18)",
}
NOT_BUILT = "planned (DESIGN.md §4) but the check is not built yet in this tree; not claimed until its obligations are discharged on every run"


def main():
    props = [json.loads(l) for l in open(os.path.join(VERIF, "properties.jsonl"))]
    hs = vlib.scan_harnesses()
    claimed = []
    for p in props:
        pid = p["id"]
        has = any(pid in h["props"] for h in hs) or any(pid in v["props"] for v in ledger.VERUS_UNITS)
        if pid in ledger.PROPS and has and not ledger.PROPS[pid].get("disabled"):
            claimed.append(pid)
    checks = []
    for pid in claimed:
        pi = ledger.PROPS[pid]
        checks.append(dict(
            property_id=pid,
            quick_cmd=f"./bin/check {pid} --tier quick",
            thorough_cmd=f"./bin/check {pid} --tier thorough",
            evidence_file=f"evidence/{pid}.json",
            replay_cmd_template="./bin/check --replay {path}",
            engine="contracts",
            level_claimed=dict(category=pi.get("level", "other"), text=pi["level_text"], design_ref=pi.get("design_ref", "DESIGN.md §4 " + pid)),
            level_note=pi["level_note"],
            technique=pi["technique"],
        ))
    na = []
    for p in props:
        pid = p["id"]
        if pid in claimed:
            continue
        na.append(dict(property_id=pid, reason=NOT_APPLICABLE.get(pid, NOT_BUILT)))
    man = dict(
        version=1,
        setup_cmd="./bin/setup",
        hooks=dict(
            guard="none: /repo carries no hooks; contracts and harness modules are overlaid (add-only, anchor-keyed) on a per-run copy of /repo's working tree and are compiled only under cfg(kani) / cfg(verif_replay)",
            enable="./bin/check builds the overlay copy itself (tools/overlay.py) and runs `cargo kani` / `verus` on it",
            baseline_off_cmd=BASELINE_CMD,
            source_commits=[],
            add_only=True,
        ),
        engines=[dict(name="contracts", path="bin/check", serves_properties=claimed,
                      kind_free_text="contract-based deductive verification of the real code: Kani function contracts / full-domain proof harnesses (CBMC) on an add-only annotated copy, Verus on verbatim-extracted functions; counterexample replay natively on the real code")],
        checks=checks,
        notes="exit 0 = all mapped obligations discharged; exit 1 = refuted obligation (VIOLATION line, replay file); exit 2 = undecided (timeout / OOM / lost anchor / unsupported construct / vacuity guard). KNOWN_FINDINGS.json lists genuine defects recorded or fixed.",
        not_applicable=na,
    )
    with open(os.path.join(VERIF, "MANIFEST.json"), "w") as f:
        json.dump(man, f, indent=1)
        f.write("\n")
    print("claimed:", claimed)


if __name__ == "__main__":
    main()
