#!/bin/bash
# run a list of seeded changes against their property's quick check, from the directory this script lives in
cd "$(dirname "$0")/.."
for s in "$@"; do
  VERIF_JOBS=${VERIF_JOBS:-8} VERIF_WORK=/var/tmp/verif-work-seeds python3 tools/seedrun.py $s ${SEED_TIER:-quick}
done
echo BATCH-DONE
