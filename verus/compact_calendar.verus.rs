// Verus unit for C15 (and the C04 view of it): `CompactMonth`, `CompactYear`, `CompactCalendar` insertion and
// membership for calendars of ANY number of years - no bound on the stored window or on its growth.
// Bodies are extracted verbatim from /repo/compact-calendar/src/lib.rs on every run (tools/verus_extract.py);
// lines starting with //@ are extraction directives, everything else is specification text.
//
// Abstract view: a calendar is the set of (year, month, day) triples `has(y, m, d)`.  Every operation states its
// effect on the WHOLE view (a quantified (y, m, d)), so "nothing else changed" is proved, not assumed.
// The type invariant `wf` (years inside chrono's range, 12 months per year) is established by `default()` and
// preserved by `insert` - both obligations below.
#![feature(allocator_api)]
use std::alloc::Allocator;
use std::collections::VecDeque;
use vstd::prelude::*;

verus! {

// ---- assumed contracts on dependencies (every one is listed in the evidence file) -------------------------------
// chrono::NaiveDate is replaced by an opaque stand-in with the three accessors the code calls.  Assumed:
// year() in chrono's documented range [-262143, 262142], month() in 1..=12, day() in 1..=31.
#[verifier::external_body]
#[derive(Clone, Copy)]
pub struct NaiveDate { _opaque: i32 }

impl NaiveDate {
    pub uninterp spec fn y(self) -> int;
    pub uninterp spec fn m(self) -> int;
    pub uninterp spec fn d(self) -> int;

    #[verifier::external_body]
    pub fn year(&self) -> (r: i32)
        ensures r == self.y(), -262143 <= r <= 262142,
    { unimplemented!() }

    #[verifier::external_body]
    pub fn month(&self) -> (r: u32)
        ensures r == self.m(), 1 <= r <= 12,
    { unimplemented!() }

    #[verifier::external_body]
    pub fn day(&self) -> (r: u32)
        ensures r == self.d(), 1 <= r <= 31,
    { unimplemented!() }
}

// std::collections::VecDeque: vstd specifies default / push_back / push_front / len over the view `v@: Seq<T>`;
// the five accessors below have no vstd specification and are assumed to be what their documentation says.
pub assume_specification<T, A: Allocator>[VecDeque::<T, A>::get](v: &VecDeque<T, A>, i: usize) -> (r: Option<&T>)
    ensures
        i < v@.len() ==> r == Some(&v@[i as int]),
        i >= v@.len() ==> r is None;

pub assume_specification<T, A: Allocator>[VecDeque::<T, A>::get_mut](v: &mut VecDeque<T, A>, i: usize) -> (r: Option<&mut T>)
    ensures
        i >= old(v)@.len() ==> r is None && final(v)@ == old(v)@,
        i < old(v)@.len() ==> r is Some && *r.unwrap() == old(v)@[i as int]
            && final(v)@ == old(v)@.update(i as int, *final(r.unwrap()));

pub assume_specification<T, A: Allocator>[VecDeque::<T, A>::back_mut](v: &mut VecDeque<T, A>) -> (r: Option<&mut T>)
    ensures
        old(v)@.len() == 0 ==> r is None && final(v)@ == old(v)@,
        old(v)@.len() > 0 ==> r is Some && *r.unwrap() == old(v)@[old(v)@.len() - 1]
            && final(v)@ == old(v)@.update(old(v)@.len() - 1, *final(r.unwrap()));

pub assume_specification<T, A: Allocator>[VecDeque::<T, A>::front_mut](v: &mut VecDeque<T, A>) -> (r: Option<&mut T>)
    ensures
        old(v)@.len() == 0 ==> r is None && final(v)@ == old(v)@,
        old(v)@.len() > 0 ==> r is Some && *r.unwrap() == old(v)@[0]
            && final(v)@ == old(v)@.update(0, *final(r.unwrap()));

pub assume_specification<T, A: Allocator>[VecDeque::<T, A>::is_empty](v: &VecDeque<T, A>) -> (r: bool)
    ensures r == (v@.len() == 0);

// ---- the data types, as written in the source ---------------------------------------------------------------------
//@STRUCT file=compact-calendar/src/lib.rs name=CompactMonth derive=Clone,Copy

//@STRUCT file=compact-calendar/src/lib.rs name=CompactYear derive=Clone,Copy

//@STRUCT file=compact-calendar/src/lib.rs name=CompactCalendar

// ---- bit-vector lemmas linking the bitmap to the set-of-days view (broadcast: the bodies carry no proof code) ---------
pub mod lemmas {
    use super::*;

    /// day `day` (1..=31) is a member of bitmap `b`: bit `day - 1`, exactly the expression `contains` evaluates
    pub open spec fn bit(b: u32, day: int) -> bool {
        b & (1u32 << ((day - 1) as u32)) != 0
    }

    pub broadcast proof fn lemma_set_bit(b: u32, k: u32, j: u32)
        requires 1 <= k <= 31, 1 <= j <= 31,
        ensures #[trigger] bit((b | (1u32 << ((k - 1) as u32))), j as int) == (j == k || bit(b, j as int)),
    {
        assert(((b | (1u32 << ((k - 1) as u32))) & (1u32 << ((j - 1) as u32)) != 0)
            == (j == k || (b & (1u32 << ((j - 1) as u32)) != 0))) by (bit_vector)
            requires 1 <= k <= 31, 1 <= j <= 31;
    }

    pub broadcast proof fn lemma_zero_bit(j: int)
        ensures !#[trigger] bit(0u32, j),
    {
        let s = (j - 1) as u32;
        assert(0u32 & (1u32 << s) == 0) by (bit_vector);
    }
}
use lemmas::*;
broadcast use {lemmas::lemma_set_bit, lemmas::lemma_zero_bit};

// ---- CompactMonth ------------------------------------------------------------------------------------------------------
impl CompactMonth {
    pub closed spec fn bits(self) -> u32 { self.0 }

    /// abstract view: day `day` is in the month
    pub open spec fn has(self, day: int) -> bool { bit(self.bits(), day) }

    //@FN file=compact-calendar/src/lib.rs impl=^impl CompactMonth \{ fn=insert ret=r name=C15.verus.month.insert
        requires 1 <= day <= 31,
        ensures
            r == !old(self).has(day as int),
            forall|j: u32| 1 <= j <= 31 ==> #[trigger] final(self).has(j as int) == (j == day || old(self).has(j as int)),
    //@END

    //@FN file=compact-calendar/src/lib.rs impl=^impl CompactMonth \{ fn=contains ret=r name=C15.verus.month.contains
        requires 1 <= day <= 31,
        ensures r == self.has(day as int),
    //@END
}

impl Default for CompactMonth {
    //@FN file=compact-calendar/src/lib.rs impl=^impl Default for CompactMonth \{ fn=default ret=r name=C15.verus.month.default
        ensures r.bits() == 0,
    //@END
}

// ---- CompactYear --------------------------------------------------------------------------------------------------------
/// a year without any date
pub open spec fn empty_year(y: CompactYear) -> bool {
    y.months().len() == 12 && forall|m: int, d: int| 1 <= m <= 12 && 1 <= d <= 31 ==> !y.has(m, d)
}

impl CompactYear {
    pub closed spec fn months(self) -> Seq<CompactMonth> { self.0@ }

    /// abstract view: (month, day) is in the year
    pub open spec fn has(self, month: int, day: int) -> bool { self.months()[month - 1].has(day) }

    //@FN file=compact-calendar/src/lib.rs impl=^impl CompactYear \{ fn=insert ret=r name=C15.verus.year.insert
        requires 1 <= month <= 12, 1 <= day <= 31,
        ensures
            r == !old(self).has(month as int, day as int),
            final(self).months().len() == 12,
            forall|m: int, d: u32| 1 <= m <= 12 && 1 <= d <= 31 ==>
                (#[trigger] final(self).has(m, d as int) <==> (old(self).has(m, d as int) || (m == month && d == day))),
    //@END

    //@FN file=compact-calendar/src/lib.rs impl=^impl CompactYear \{ fn=contains ret=r name=C15.verus.year.contains
        requires 1 <= month <= 12, 1 <= day <= 31,
        ensures r == self.has(month as int, day as int),
    //@END
}

impl Default for CompactYear {
    //@FN file=compact-calendar/src/lib.rs impl=^impl Default for CompactYear \{ fn=default ret=r name=C15.verus.year.default
        ensures empty_year(r),
    //@END
}

// ---- CompactCalendar ----------------------------------------------------------------------------------------------------
impl CompactCalendar {
    pub closed spec fn first(self) -> int { self.first_year as int }

    pub closed spec fn years(self) -> Seq<CompactYear> { self.calendar@ }

    /// type invariant: the stored window lies inside chrono's year range and every stored year has 12 months
    pub open spec fn wf(self) -> bool {
        &&& -262143 <= self.first() <= 262142
        &&& self.first() + self.years().len() <= 262143
        &&& forall|i: int| 0 <= i < self.years().len() ==> (#[trigger] self.years()[i]).months().len() == 12
    }

    /// abstract view: the date (y, m, d) is in the calendar - for any year, inside or outside the stored window
    pub open spec fn has(self, y: int, m: int, d: int) -> bool {
        self.first() <= y < self.first() + self.years().len() && self.years()[y - self.first()].has(m, d)
    }

    //@FN file=compact-calendar/src/lib.rs impl=^impl CompactCalendar \{ fn=year_for ret=r name=C15.verus.calendar.year_for
        requires self.wf(),
        ensures
            (self.first() <= date.y() < self.first() + self.years().len())
                ==> r == Some(&self.years()[date.y() - self.first()]),
            !(self.first() <= date.y() < self.first() + self.years().len()) ==> r is None,
    //@END

    //@FN file=compact-calendar/src/lib.rs impl=^impl CompactCalendar \{ fn=year_for_mut ret=r name=C15.verus.calendar.year_for_mut
        requires old(self).wf(),
        ensures
            final(self).first() == old(self).first(),
            !(old(self).first() <= date.y() < old(self).first() + old(self).years().len())
                ==> r is None && final(self).years() == old(self).years(),
            (old(self).first() <= date.y() < old(self).first() + old(self).years().len()) ==> r is Some
                && *r.unwrap() == old(self).years()[date.y() - old(self).first()]
                && final(self).years() == old(self).years().update(date.y() - old(self).first(), *final(r.unwrap())),
    //@END

    //@FN file=compact-calendar/src/lib.rs impl=^impl CompactCalendar \{ fn=insert ret=r name=C15.verus.calendar.insert
        requires old(self).wf(),
        ensures
            final(self).wf(),
            r == !old(self).has(date.y(), date.m(), date.d()),
            forall|y: int, m: int, d: u32| 1 <= m <= 12 && 1 <= d <= 31 ==>
                (#[trigger] final(self).has(y, m, d as int)
                    <==> (old(self).has(y, m, d as int) || (y == date.y() && m == date.m() && d == date.d()))),
        //@LOOP n=1 binder=iter
            invariant
                self.first() == old(self).first(),
                iter.snapshot.start == date.y(), iter.snapshot.end == old(self).first(),
                old(self).wf(),
                self.years().len() == old(self).years().len() + iter.index@,
                forall|i: int| 0 <= i < iter.index@ ==> empty_year(#[trigger] self.years()[i]),
                forall|j: int| iter.index@ <= j < self.years().len() ==> #[trigger] self.years()[j] == old(self).years()[j - iter.index@],
        //@ENDLOOP
        //@LOOP n=2 binder=iter
            invariant
                self.first() == old(self).first(),
                iter.snapshot.start == last_year, iter.snapshot.end == date.y(),
                last_year == old(self).first() + old(self).years().len() - 1,
                old(self).wf(),
                self.years().len() == old(self).years().len() + iter.index@,
                forall|i: int| old(self).years().len() <= i < self.years().len() ==> empty_year(#[trigger] self.years()[i]),
                forall|i: int| 0 <= i < old(self).years().len() ==> #[trigger] self.years()[i] == old(self).years()[i],
        //@ENDLOOP
    //@END

    //@FN file=compact-calendar/src/lib.rs impl=^impl CompactCalendar \{ fn=contains ret=r name=C15.verus.calendar.contains
        requires self.wf(),
        ensures r == self.has(date.y(), date.m(), date.d()),
    //@END
}

impl Default for CompactCalendar {
    //@FN file=compact-calendar/src/lib.rs impl=^impl Default for CompactCalendar \{ fn=default ret=r name=C15.verus.calendar.default
        ensures
            r.wf(),
            forall|y: int, m: int, d: int| !r.has(y, m, d),
    //@END
}

/// C15, first sentence, as a lemma over the contracts: after `insert(x)` on any well-formed calendar the
/// calendar contains exactly the dates it contained before plus `x` (whatever the year of `x` and of the query).
proof fn lemma_insert_then_contains(before: CompactCalendar, after: CompactCalendar, xy: int, xm: int, xd: int, qy: int, qm: int, qd: u32)
    requires
        1 <= qm <= 12, 1 <= qd <= 31,
        forall|y: int, m: int, d: u32| 1 <= m <= 12 && 1 <= d <= 31 ==>
            (#[trigger] after.has(y, m, d as int) <==> (before.has(y, m, d as int) || (y == xy && m == xm && d == xd))),
    ensures
        after.has(qy, qm, qd as int) <==> (before.has(qy, qm, qd as int) || (qy == xy && qm == xm && qd == xd)),
{
}

} // verus!

fn main() {}
