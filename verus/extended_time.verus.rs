// Verus unit for C19: the arithmetic methods of `ExtendedTime`, bodies extracted verbatim from
// /repo/opening-hours-syntax/src/extended_time.rs on every run (see tools/verus_extract.py).
// Lines starting with //@ are extraction directives; everything else is specification text.
use vstd::prelude::*;

verus! {

//@STRUCT file=opening-hours-syntax/src/extended_time.rs name=ExtendedTime

// The one library fact vstd does not provide (listed as an assumption in every evidence file).
pub assume_specification[ <i16 as core::convert::From<u8>>::from ](x: u8) -> (r: i16)
    ensures r == x as i16;

impl ExtendedTime {
    /// Type invariant of the property statement: 00:00 ..= 48:00, minute below 60.
    pub closed spec fn wf(self) -> bool {
        self.hour <= 48 && self.minute <= 59 && (self.hour == 48 ==> self.minute == 0)
    }

    pub closed spec fn h(self) -> u8 { self.hour }
    pub closed spec fn m(self) -> u8 { self.minute }

    /// Abstract view: minutes since midnight, a mathematical integer.
    pub closed spec fn mins(self) -> int {
        self.minute as int + 60 * (self.hour as int)
    }

    //@FN file=opening-hours-syntax/src/extended_time.rs impl=^impl ExtendedTime \{ fn=new ret=r name=C19.verus.new
        ensures
            r.is_some() <==> (60 * (hour as int) + (minute as int) <= 48 * 60 && minute <= 59),
            r.is_some() ==> r.unwrap().wf() && r.unwrap().mins() == 60 * (hour as int) + (minute as int)
                && r.unwrap().h() == hour && r.unwrap().m() == minute,
    //@END

    //@FN file=opening-hours-syntax/src/extended_time.rs impl=^impl ExtendedTime \{ fn=add_minutes ret=r name=C19.verus.add_minutes
        requires self.wf(),
        ensures
            r.is_some() <==> 0 <= self.mins() + (minutes as int) <= 48 * 60,
            r.is_some() ==> r.unwrap().wf() && r.unwrap().mins() == self.mins() + (minutes as int),
    //@END

    //@FN file=opening-hours-syntax/src/extended_time.rs impl=^impl ExtendedTime \{ fn=add_hours ret=r name=C19.verus.add_hours
        requires self.wf(),
        ensures
            r.is_some() <==> 0 <= self.mins() + 60 * (hours as int) <= 48 * 60,
            r.is_some() ==> r.unwrap().wf() && r.unwrap().mins() == self.mins() + 60 * (hours as int),
    //@END

    //@FN file=opening-hours-syntax/src/extended_time.rs impl=^impl ExtendedTime \{ fn=mins_from_midnight ret=r name=C19.verus.mins_from_midnight
        requires self.wf(),
        ensures r as int == self.mins(), r <= 48 * 60,
    //@END

    //@FN file=opening-hours-syntax/src/extended_time.rs impl=^impl ExtendedTime \{ fn=from_mins_from_midnight ret=r name=C19.verus.from_mins_from_midnight
        ensures
            r.is_some() <==> minute <= 48 * 60,
            r.is_some() ==> r.unwrap().wf() && r.unwrap().mins() == minute as int,
    //@END

    /// conversion to and from minutes are inverse (on well-formed times): a lemma over the two contracts.
    proof fn lemma_roundtrip(t: ExtendedTime, u: ExtendedTime)
        requires t.wf(), u.wf(), t.mins() == u.mins(),
        ensures t == u,
    {
        assert(t.minute as int == t.mins() % 60) by (nonlinear_arith)
            requires t.minute <= 59, t.mins() == t.minute as int + 60 * (t.hour as int);
        assert(u.minute as int == u.mins() % 60) by (nonlinear_arith)
            requires u.minute <= 59, u.mins() == u.minute as int + 60 * (u.hour as int);
    }

    /// ordering is minute ordering: lexicographic (hour, minute) order - what `#[derive(Ord)]` on the
    /// field order (hour, minute) means - coincides with the order of `mins` on well-formed values.
    /// (The compiler-derived implementation itself is checked by the Kani harness `et_ord`.)
    proof fn lemma_lex_order_is_minute_order(a: ExtendedTime, b: ExtendedTime)
        requires a.wf(), b.wf(),
        ensures (a.hour < b.hour || (a.hour == b.hour && a.minute < b.minute)) <==> a.mins() < b.mins(),
    {
    }
}

fn exec_roundtrip(t: ExtendedTime) -> (r: Option<ExtendedTime>)
    requires t.wf(),
    ensures r == Some(t),
{
    let r = ExtendedTime::from_mins_from_midnight(t.mins_from_midnight());
    proof { ExtendedTime::lemma_roundtrip(t, r.unwrap()); }
    r
}

} // verus!

fn main() {}
