// Verus unit for C20 (and the sorted/duplicate-free clause of C17): `UniqueSortedVec::{new, contains,
// find_first_following}` for vectors of ANY length and ANY element type `T: Ord`, bodies extracted verbatim from
// /repo/opening-hours-syntax/src/sorted_vec.rs on every run.  Lines starting with //@ are extraction directives.
//
// The order on `T` is vstd's specification of `Ord::cmp` (`cmp_spec`).  The type invariant `wf` - strictly increasing -
// is a precondition of the two searches (the field is private; `From<Vec>` and `union`, which establish and preserve
// it, are outside Verus's dialect - `sort_unstable`/`dedup` without specification, slice patterns, `mut self` - and
// stay under the bounded Kani harnesses).
use core::cmp::Ordering;
use vstd::prelude::*;
use vstd::std_specs::cmp::OrdSpec;

verus! {

//@STRUCT file=opening-hours-syntax/src/sorted_vec.rs name=UniqueSortedVec

pub open spec fn strictly_increasing<T: Ord>(s: Seq<T>) -> bool {
    forall|i: int, j: int| 0 <= i < j < s.len() ==> #[trigger] s[i].cmp_spec(&s[j]) == Ordering::Less
}

/// `k` is the position of the first element of `s` that is not smaller than `x` (`s.len()` if there is none)
pub open spec fn is_boundary<T: Ord>(s: Seq<T>, x: T, k: int) -> bool {
    &&& 0 <= k <= s.len()
    &&& forall|j: int| 0 <= j < k ==> #[trigger] s[j].cmp_spec(&x) == Ordering::Less
    &&& forall|j: int| k <= j < s.len() ==> #[trigger] s[j].cmp_spec(&x) != Ordering::Less
}

// Assumed contract of the dependency (std has no vstd specification for it): on a strictly increasing slice,
// `binary_search` returns Ok(position of an element equal to x) or Err(position where x would be inserted).
pub assume_specification<T: Ord>[<[T]>::binary_search](s: &[T], x: &T) -> (r: Result<usize, usize>)
    ensures
        strictly_increasing(s@) ==> match r {
            Ok(i) => i < s@.len() && s@[i as int].cmp_spec(x) == Ordering::Equal && is_boundary(s@, *x, i as int),
            Err(i) => is_boundary(s@, *x, i as int)
                && (forall|j: int| i <= j < s@.len() ==> #[trigger] s@[j].cmp_spec(x) == Ordering::Greater),
        };

impl<T> UniqueSortedVec<T> {
    pub closed spec fn elems(self) -> Seq<T> { self.0@ }

    //@FN file=opening-hours-syntax/src/sorted_vec.rs impl=^impl<T> UniqueSortedVec<T> \{ fn=new ret=r name=C20.verus.new drop_const=1
        ensures r.elems().len() == 0,
    //@END
}

impl<T: Ord> UniqueSortedVec<T> {
    pub open spec fn view(self) -> Seq<T> { self.elems() }

    /// type invariant: strictly increasing, hence free of duplicates
    pub open spec fn wf(self) -> bool { strictly_increasing(self.view()) }

    /// abstract view: membership
    pub open spec fn mem(self, x: &T) -> bool {
        exists|i: int| 0 <= i < self.view().len() && #[trigger] self.view()[i].cmp_spec(x) == Ordering::Equal
    }

    //@FN file=opening-hours-syntax/src/sorted_vec.rs impl=^impl<T: Ord> UniqueSortedVec<T> \{ fn=contains ret=r name=C20.verus.contains
        requires self.wf(),
        ensures r == self.mem(x),
    //@END

    //@FN file=opening-hours-syntax/src/sorted_vec.rs impl=^impl<T: Ord> UniqueSortedVec<T> \{ fn=find_first_following ret=r name=C20.verus.find_first_following
        requires self.wf(),
        ensures
            exists|k: int| #[trigger] is_boundary(self.view(), *x, k)
                && r == (if k < self.view().len() { Some(&self.view()[k]) } else { None }),
    //@END
}

/// C20, last sentence, as a lemma over the contract: the element returned is not smaller than the argument, every
/// element before it is smaller, and `None` means every element is smaller.
proof fn lemma_first_following_is_the_least_not_smaller<T: Ord>(s: Seq<T>, x: T, k: int)
    requires is_boundary(s, x, k),
    ensures
        k < s.len() ==> s[k].cmp_spec(&x) != Ordering::Less,
        forall|j: int| 0 <= j < k ==> #[trigger] s[j].cmp_spec(&x) == Ordering::Less,
        k == s.len() ==> forall|j: int| 0 <= j < s.len() ==> #[trigger] s[j].cmp_spec(&x) == Ordering::Less,
{
}

} // verus!

fn main() {}
